package main

// Package-level variables: the heap after running the package initialisers symbolically; variables that any
// non-init function stores to are unknown at function entry.

import (
	"fmt"
	"go/token"
	"go/types"
	"os"
	"strings"

	"golang.org/x/tools/go/packages"
	"golang.org/x/tools/go/ssa"
	"golang.org/x/tools/go/ssa/ssautil"
)

func (e *Exec) setupGlobals(pkgs []*packages.Package) {
	e.inInit = true
	defer func() { e.inInit = false }()
	defer func() {
		if x := recover(); x != nil {
			if u, ok := x.(Unsupported); ok {
				e.note("package initialisers not modelled (" + u.Msg + "): package-level variables are unknown at entry")
				e.initState = nil
				e.tolerant = false
				e.discovery = 0
				fmt.Fprintln(os.Stderr, "note: package initialisers not modelled:", u.Msg)
				return
			}
			panic(x)
		}
	}()
	var mods []*ssa.Package
	for _, p := range e.prog.AllPackages() {
		if strings.HasPrefix(p.Pkg.Path(), "github.com/ossrs/go-oryx-lib") {
			mods = append(mods, p)
		}
	}
	// which globals are written (or have their address escape) outside init?
	isMod := map[*ssa.Package]bool{}
	for _, p := range mods {
		isMod[p] = true
	}
	for fn := range ssautil.AllFunctions(e.prog) {
		p := fn.Package()
		if p == nil && fn.Parent() != nil {
			p = fn.Parent().Package()
		}
		if p == nil || !isMod[p] || fn.Name() == "init" || strings.HasPrefix(fn.Name(), "init#") {
			continue
		}
		for _, b := range fn.Blocks {
			for _, ins := range b.Instrs {
				for _, op := range ins.Operands(nil) {
					g, ok := (*op).(*ssa.Global)
					if !ok {
						continue
					}
					if u, ok := ins.(*ssa.UnOp); ok && u.Op == token.MUL {
						continue // plain read
					}
					e.mutGlobal[g] = true
				}
			}
		}
	}
	st := NewState()
	st.Assume(IntLe(IntConst(1), refTerm(0, 0)))
	// zero-initialise
	for _, p := range mods {
		for _, m := range p.Members {
			if g, ok := m.(*ssa.Global); ok {
				ptr := e.globalPtr(g).(*PtrV)
				func() {
					defer func() {
						if x := recover(); x != nil {
							if _, ok := x.(Unsupported); !ok {
								panic(x)
							}
						}
					}()
					if ptr.Kind == PObj {
						e.zeroObject(st, ptr)
					}
				}()
			}
		}
	}
	e.tolerant = true
	e.discovery++
	done := map[*ssa.Package]bool{}
	var run func(p *ssa.Package)
	run = func(p *ssa.Package) {
		if done[p] {
			return
		}
		done[p] = true
		for _, imp := range p.Pkg.Imports() {
			if ip := e.prog.Package(imp); ip != nil && isMod[ip] {
				run(ip)
			}
		}
		init := p.Func("init")
		if init == nil || init.Blocks == nil {
			return
		}
		e.curFn = "init"
		fr := &Frame{fn: init, env: map[ssa.Value]Value{}, loops: map[*ssa.BasicBlock]*loopRec{}, params: map[string]Value{}}
		outs := e.runBlock(st, fr, init.Blocks[0], nil, 0)
		var live []Outcome
		for _, o := range outs {
			if !o.st.dead {
				live = append(live, o)
			}
		}
		if len(live) != 1 {
			panic(unsupported("package initialiser of " + p.Pkg.Name() + " has more than one path"))
		}
		st = live[0].st
	}
	for _, p := range mods {
		run(p)
	}
	e.discovery--
	e.tolerant = false
	// mutable globals are unknown at function entry
	for g := range e.mutGlobal {
		if g.Pkg == nil || !isMod[g.Pkg] {
			continue
		}
		ptr := e.globalPtr(g).(*PtrV)
		if ptr.Kind != PObj {
			continue
		}
		func() {
			defer func() {
				if x := recover(); x != nil {
					if _, ok := x.(Unsupported); !ok {
						panic(x)
					}
				}
			}()
			l := e.locOf(ptr)
			v := freshValue("G:"+g.Name(), l.T)
			st.StoreLoc(l, v)
		}()
	}
	// the initial heap becomes "time zero": everything allocated by the initialisers is an entry-time object
	st.NewBase()
	st.written = map[string]bool{}
	e.initState = st
	e.initBase = st.base
}

var _ = types.Typ
