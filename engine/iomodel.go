package main

// Ghost byte streams for io.Reader / io.Writer values and trusted contracts of the io / bufio / encoding/binary
// primitives written against them.
//
// Reader r (keyed by the reference of the reader object):   data[r], pos[r], len[r], err[r]
//   the stream delivers data[pos..len) and then fails forever with err[r] (io.EOF for a clean end).
// Writer w:   data[w], len[w] (bytes accepted so far), limit[w], err[w]
//   the writer accepts bytes until len reaches limit, then fails with err[w] (non-nil).
// ioerr: the first error any transport primitive returned during the current call.

import (
	"fmt"
	"go/token"
	"go/types"
	"strings"

	"golang.org/x/tools/go/ssa"
)

var byteArr = ArrSort(BV(64), BV(8))

func (e *Exec) gh(st *State, name string, s Sort) *Term {
	return st.heap("ghost:"+name, ArrSort(SInt, s))
}
func (e *Exec) ghGet(st *State, name string, s Sort, ref *Term) *Term {
	return Select(e.gh(st, name, s), ref)
}
func (e *Exec) ghSet(st *State, name string, s Sort, ref, v *Term) {
	k := "ghost:" + name
	st.heaps[k] = Store(e.gh(st, name, s), ref, v)
	st.written[k] = true
	if ref.Op != "ref" {
		st.gw = append(st.gw, ghostWrite{k, ref})
	}
}

// streamRef returns the reference that identifies a reader/writer value.
func streamRef(v Value) *Term {
	switch x := v.(type) {
	case *IfaceV:
		return x.Ref
	case *PtrV:
		return ptrToTerm(x)
	}
	panic(unsupported("stream value " + describeValue(v)))
}

func (e *Exec) ioEOF(st *State, name string) *IfaceV {
	for _, p := range e.prog.AllPackages() {
		if p.Pkg.Path() == "io" {
			if g, ok := p.Members[name].(*ssa.Global); ok {
				ptr := e.globalPtr(g).(*PtrV)
				v := st.LoadLoc(e.locOf(ptr)).(*IfaceV)
				// the sentinel errors of package io are non-nil and pairwise distinct
				st.AssumeFact(Not(Eq(v.Tid, IntConst(0))))
				if name == "ErrUnexpectedEOF" {
					o := e.ioEOF(st, "EOF")
					st.AssumeFact(Not(Eq(v.Ref, o.Ref)))
				}
				return v
			}
		}
	}
	panic(unsupported("io." + name + " not found"))
}

func (e *Exec) ioerrGet(st *State) *IfaceV {
	return &IfaceV{Tid: e.ghGet(st, "ioerr.tid", SInt, IntConst(0)), Ref: e.ghGet(st, "ioerr.ref", SInt, IntConst(0))}
}

func (e *Exec) ioerrRecord(st *State, failed *Term, err *IfaceV) {
	cur := e.ioerrGet(st)
	isNil := Eq(cur.Tid, IntConst(0))
	set := And(failed, isNil)
	e.ghSet(st, "ioerr.tid", SInt, IntConst(0), Ite(set, err.Tid, cur.Tid))
	e.ghSet(st, "ioerr.ref", SInt, IntConst(0), Ite(set, err.Ref, cur.Ref))
}

type rdState struct{ data, pos, n, errT, errR *Term }

func (e *Exec) rd(st *State, ref *Term) rdState {
	r := rdState{e.ghGet(st, "rd.data", byteArr, ref), e.ghGet(st, "rd.pos", BV(64), ref), e.ghGet(st, "rd.len", BV(64), ref),
		e.ghGet(st, "rd.err.tid", SInt, ref), e.ghGet(st, "rd.err.ref", SInt, ref)}
	// stream invariants: 0 <= pos <= len <= 2^40, the terminal error is non-nil
	st.AssumeFact(BVUle(r.n, BVConst(maxLen, 64)))
	st.AssumeFact(BVUle(r.pos, r.n))
	st.AssumeFact(Not(Eq(r.errT, IntConst(0))))
	return r
}

// readN consumes exactly want bytes if available; otherwise everything that is left and fails.
// eofKind: 0 = io.ReadFull rules (EOF if nothing read, ErrUnexpectedEOF if partial), 1 = io.CopyN rules (terminal error as is).
// Returns (bytes delivered as (array, offset)), n, err.
func (e *Exec) readN(st *State, ref *Term, want *Term, eofKind int) (src *Term, soff *Term, n *Term, err *IfaceV, ok *Term) {
	r := e.rd(st, ref)
	avail := BVSub(r.n, r.pos)
	ok = BVUle(want, avail)
	n = Ite(ok, want, avail)
	e.ghSet(st, "rd.pos", BV(64), ref, BVAdd(r.pos, n))
	term := &IfaceV{Tid: r.errT, Ref: r.errR}
	failErr := term
	if eofKind == 0 {
		eof := e.ioEOF(st, "EOF")
		uneof := e.ioEOF(st, "ErrUnexpectedEOF")
		isEOF := And(Eq(term.Tid, eof.Tid), Eq(term.Ref, eof.Ref))
		partial := Not(Eq(avail, BVConst(0, 64)))
		failErr = &IfaceV{Tid: Ite(And(isEOF, partial), uneof.Tid, term.Tid), Ref: Ite(And(isEOF, partial), uneof.Ref, term.Ref)}
	}
	err = &IfaceV{Tid: Ite(ok, IntConst(0), failErr.Tid), Ref: Ite(ok, IntConst(0), failErr.Ref)}
	e.ioerrRecord(st, Not(ok), failErr)
	return r.data, r.pos, n, err, ok
}

type wrState struct{ data, n, limit, errT, errR *Term }

func (e *Exec) wr(st *State, ref *Term) wrState { return e.wrF(st, "wr", ref) }

// wrFamily: objects of a type declared `//@ ghost-writer T` keep their ghost byte stream in a family of their own
// (keyed by the object), apart from the streams of transport writers: the two can never be the same stream.
func (e *Exec) wrFamily(v Value) string {
	var t types.Type
	switch x := v.(type) {
	case *IfaceV:
		if x.Tid.Op == "intconst" && x.Tid.Val != 0 {
			t = e.tidTypes[int(x.Tid.Val)-1]
		}
	case *PtrV:
		if x.Kind == PObj && len(x.Path) == 0 {
			t = types.NewPointer(x.Root)
		}
	}
	if pt, ok := t.(*types.Pointer); ok && e.specs != nil {
		for _, g := range e.specs.ghostWriters {
			if typeKey(pt.Elem()) == g {
				return "gw:" + g
			}
		}
	}
	return "wr"
}

func (e *Exec) wrF(st *State, fam string, ref *Term) wrState {
	w := wrState{e.ghGet(st, fam+".data", byteArr, ref), e.ghGet(st, fam+".len", BV(64), ref), e.ghGet(st, fam+".limit", BV(64), ref),
		e.ghGet(st, fam+".err.tid", SInt, ref), e.ghGet(st, fam+".err.ref", SInt, ref)}
	st.AssumeFact(BVUle(w.n, BVConst(maxLen, 64)))
	st.AssumeFact(Not(Eq(w.errT, IntConst(0))))
	return w
}

// writeN appends n bytes from (src, soff); fails (after a possibly partial write) when the limit is reached.
func (e *Exec) writeN(st *State, ref *Term, src, soff, n *Term) (written *Term, err *IfaceV) {
	w := e.wr(st, ref)
	room := Ite(BVUle(w.n, w.limit), BVSub(w.limit, w.n), BVConst(0, 64))
	fits := BVUle(n, room)
	// besides the point from which the writer fails for good (its limit), any single write may fail on its own (a
	// timeout, a temporary condition) after writing only part of its bytes, and the next one may succeed again
	e.note("a transport write may also fail transiently (one write fails, possibly after a partial write; later writes may succeed)")
	transient := And(Fresh("wr.transient", SBool), Not(e.ghGet(st, "wr.reliable", SBool, ref)))
	part := Fresh("wr.partial", BV(64))
	st.AssumeFact(And(BVUle(part, n), BVUle(part, room)))
	tT, tR := Fresh("wr.transient.tid", SInt), Fresh("wr.transient.ref", SInt)
	st.AssumeFact(Not(Eq(tT, IntConst(0))))
	ok := And(fits, Not(transient))
	written = Ite(ok, n, Ite(fits, part, room))
	e.ghSet(st, "wr.data", byteArr, ref, ArrayCopy(w.data, w.n, src, soff, written))
	e.ghSet(st, "wr.len", BV(64), ref, BVAdd(w.n, written))
	werr := &IfaceV{Tid: Ite(fits, tT, w.errT), Ref: Ite(fits, tR, w.errR)}
	err = &IfaceV{Tid: Ite(ok, IntConst(0), werr.Tid), Ref: Ite(ok, IntConst(0), werr.Ref)}
	e.ioerrRecord(st, Not(ok), werr)
	return
}

func isBytesBuffer(e *Exec, v Value) (*PtrV, bool) {
	switch x := v.(type) {
	case *PtrV:
		if x.Kind == PObj {
			if _, t := fieldKey(rootType(x), x.Path); t.String() == "bytes.Buffer" {
				return x, true
			}
		}
	case *IfaceV:
		if x.Tid.Op == "intconst" && x.Tid.Val != 0 {
			if t := e.tidTypes[int(x.Tid.Val)-1]; t != nil && t.String() == "*bytes.Buffer" {
				return termToPtr(x.Ref, t.(*types.Pointer).Elem()), true
			}
		}
	}
	return nil, false
}

func rootType(p *PtrV) types.Type {
	if gr, ok := p.Root.(globalRoot); ok {
		return gr.Type
	}
	return p.Root
}

func isReaderGhostObj(e *Exec, v Value) (string, bool) {
	if x, ok := v.(*IfaceV); ok && x.Tid.Op == "intconst" && x.Tid.Val != 0 {
		if t := e.tidTypes[int(x.Tid.Val)-1]; t != nil {
			return t.String(), true
		}
	}
	return "", false
}

func init() {
	bufLoc := func(e *Exec, p *PtrV) Loc {
		l := e.locOf(p)
		return Loc{Key: l.Key + ".$buf", Idx: l.Idx, T: types.NewSlice(types.Typ[types.Byte])}
	}
	// deliver n bytes (src,soff) into a destination writer value (bytes.Buffer or ghost writer)
	sink := func(e *Exec, st *State, fr *Frame, dst Value, src, soff, n *Term, pos token.Pos) (*Term, *IfaceV) {
		if bp, ok := isBytesBuffer(e, dst); ok {
			l := bufLoc(e, bp)
			cur := st.LoadLoc(l).(*SliceV)
			e.assumeValid(st, l.T, cur)
			e.frameCheck(st, fr, l, pos)
			st.StoreLoc(l, e.bufAppend(st, cur, src, soff, n))
			return n, nilIface()
		}
		return e.writeN(st, streamRef(dst), src, soff, n)
	}
	models["bytes.NewReader"] = func(e *Exec, st *State, fr *Frame, fn *ssa.Function, args []Value, pos token.Pos) []Outcome {
		s := args[0].(*SliceV)
		r := st.NewRef()
		d := st.arrayOf(s.Elem, comp{"", BV(8)}, s.Arr)
		e.ghSet(st, "rd.data", byteArr, r, ArrayCopy(zeroTerm(byteArr), BVConst(0, 64), d, s.Off, s.Len))
		e.ghSet(st, "rd.pos", BV(64), r, BVConst(0, 64))
		e.ghSet(st, "rd.len", BV(64), r, s.Len)
		eof := e.ioEOF(st, "EOF")
		e.ghSet(st, "rd.err.tid", SInt, r, eof.Tid)
		e.ghSet(st, "rd.err.ref", SInt, r, eof.Ref)
		e.ghSet(st, "rd.private", SBool, r, True)
		return one(st, &PtrV{Kind: PObj, Base: r, Root: fn.Signature.Results().At(0).Type().(*types.Pointer).Elem()})
	}
	// io.Copy(dst, src): everything src still has; io.EOF from src is not an error
	models["io.Copy"] = func(e *Exec, st *State, fr *Frame, fn *ssa.Function, args []Value, pos token.Pos) []Outcome {
		e.note("trusted: io.Copy / io.CopyN / io.ReadFull / encoding/binary.Read contracts over ghost byte streams (a stream delivers its bytes whatever the segmentation of the underlying reads)")
		sref := streamRef(args[1])
		r := e.rd(st, sref)
		n := BVSub(r.n, r.pos)
		e.ghSet(st, "rd.pos", BV(64), sref, r.n)
		written, werr := sink(e, st, fr, args[0], r.data, r.pos, n, pos)
		// source error (other than EOF) after the data
		eof := e.ioEOF(st, "EOF")
		srcFail := Not(And(Eq(r.errT, eof.Tid), Eq(r.errR, eof.Ref)))
		priv := e.ghGet(st, "rd.private", SBool, sref)
		srcFail = And(srcFail, Not(priv))
		wok := Eq(werr.Tid, IntConst(0))
		e.ioerrRecord(st, And(wok, srcFail), &IfaceV{Tid: r.errT, Ref: r.errR})
		err := &IfaceV{Tid: Ite(wok, Ite(srcFail, r.errT, IntConst(0)), werr.Tid), Ref: Ite(wok, Ite(srcFail, r.errR, IntConst(0)), werr.Ref)}
		return one(st, written, err)
	}
	models["io/ioutil.ReadAll"] = func(e *Exec, st *State, fr *Frame, fn *ssa.Function, args []Value, pos token.Pos) []Outcome {
		return e.readAllModel(st, fr, fn, args, pos)
	}
	models["io.ReadAll"] = models["io/ioutil.ReadAll"]
	models["io.CopyN"] = func(e *Exec, st *State, fr *Frame, fn *ssa.Function, args []Value, pos token.Pos) []Outcome {
		e.note("trusted: io.Copy / io.CopyN / io.ReadFull / encoding/binary.Read contracts over ghost byte streams (a stream delivers its bytes whatever the segmentation of the underlying reads)")
		want := args[2].(*Term)
		// negative n copies nothing
		want = Ite(BVSlt(want, BVConst(0, 64)), BVConst(0, 64), want)
		src, soff, n, rerr, _ := e.readN(st, streamRef(args[1]), want, 1)
		if e.dstIsDiscard {
			e.dstIsDiscard = false
			return one(st, n, rerr)
		}
		written, werr := sink(e, st, fr, args[0], src, soff, n, pos)
		wok := Eq(werr.Tid, IntConst(0))
		err := &IfaceV{Tid: Ite(wok, rerr.Tid, werr.Tid), Ref: Ite(wok, rerr.Ref, werr.Ref)}
		return one(st, written, err)
	}
	models["io.ReadFull"] = func(e *Exec, st *State, fr *Frame, fn *ssa.Function, args []Value, pos token.Pos) []Outcome {
		e.note("trusted: io.Copy / io.CopyN / io.ReadFull / encoding/binary.Read contracts over ghost byte streams (a stream delivers its bytes whatever the segmentation of the underlying reads)")
		buf := args[1].(*SliceV)
		src, soff, n, err, _ := e.readN(st, streamRef(args[0]), buf.Len, 0)
		e.frameCheck(st, fr, Loc{Key: elemKey(buf.Elem), Idx: []*Term{buf.Arr}}, pos)
		c := comp{"", BV(8)}
		st.setArrayOf(buf.Elem, c, buf.Arr, ArrayCopy(st.arrayOf(buf.Elem, c, buf.Arr), buf.Off, src, soff, n))
		return one(st, n, err)
	}
	models["encoding/binary.Read"] = func(e *Exec, st *State, fr *Frame, fn *ssa.Function, args []Value, pos token.Pos) []Outcome {
		e.note("trusted: io.Copy / io.CopyN / io.ReadFull / encoding/binary.Read contracts over ghost byte streams (a stream delivers its bytes whatever the segmentation of the underlying reads)")
		// data is an interface holding a pointer to a fixed-size unsigned integer
		d := args[2].(*IfaceV)
		if d.Tid.Op != "intconst" {
			panic(unsupported("binary.Read into a value of unknown type"))
		}
		t := e.tidTypes[int(d.Tid.Val)-1]
		pt, ok := t.(*types.Pointer)
		if !ok || !isInteger(pt.Elem()) {
			panic(unsupported("binary.Read into " + t.String()))
		}
		w := scalarSort(pt.Elem()).Width()
		nb := w / 8
		src, soff, _, err, okT := e.readN(st, streamRef(args[0]), BVConst(uint64(nb), 64), 0)
		var v *Term
		for i := 0; i < nb; i++ {
			b := Select(src, BVAdd(soff, BVConst(uint64(i), 64)))
			if v == nil {
				v = b
			} else {
				v = Concat(v, b)
			}
		}
		p := termToPtr(d.Ref, pt.Elem())
		l := e.locOf(p)
		old := st.LoadLoc(l).(*Term)
		e.frameCheck(st, fr, l, pos)
		st.StoreLoc(l, Ite(okT, v, old))
		return one(st, err)
	}
	models["encoding/binary.Write"] = func(e *Exec, st *State, fr *Frame, fn *ssa.Function, args []Value, pos token.Pos) []Outcome {
		d := args[2].(*IfaceV)
		if d.Tid.Op != "intconst" {
			panic(unsupported("binary.Write of a value of unknown type"))
		}
		t := e.tidTypes[int(d.Tid.Val)-1]
		if !isInteger(t) {
			panic(unsupported("binary.Write of " + t.String()))
		}
		v := e.unbox(st, t, d).(*Term)
		w := v.Sort.Width()
		nb := w / 8
		arr := zeroTerm(byteArr)
		for i := 0; i < nb; i++ {
			hi := (nb-i)*8 - 1
			arr = Store(arr, BVConst(uint64(i), 64), Extract(hi, hi-7, v))
		}
		_, err := sink(e, st, fr, args[0], arr, BVConst(0, 64), BVConst(uint64(nb), 64), pos)
		return one(st, err)
	}
	// bufio.Reader over a ghost stream: Peek does not consume, Discard does; Read may return fewer bytes than asked
	models["(*bufio.Reader).Peek"] = func(e *Exec, st *State, fr *Frame, fn *ssa.Function, args []Value, pos token.Pos) []Outcome {
		e.note("trusted: bufio.Reader.Peek/Discard/Read contracts over ghost byte streams (a Peek larger than the reader's buffer is an obligation: safe.peek-fits)")
		ref := streamRef(args[0])
		want := args[1].(*Term)
		e.oblige(st, fr, "safe.peek-negative", pos, BVSle(BVConst(0, 64), want))
		// bufio.ErrBufferFull: the request must fit the reader's buffer (ghost_rd_bufsize, at least 16 for every reader)
		bs := e.ghGet(st, "rd.bufsize", BV(64), ref)
		st.AssumeFact(And(BVUle(BVConst(16, 64), bs), BVUle(bs, BVConst(maxLen, 64))))
		e.oblige(st, fr, "safe.peek-fits", pos, BVSle(want, bs))
		r := e.rd(st, ref)
		avail := BVSub(r.n, r.pos)
		ok := BVUle(want, avail)
		n := Ite(ok, want, avail)
		c := Fresh("cap", BV(64))
		st.AssumeFact(And(BVUle(n, c), BVUle(c, BVConst(maxLen, 64))))
		sl := e.newSlice(st, types.Typ[types.Uint8], n, c)
		st.setArrayOf(sl.Elem, comp{"", BV(8)}, sl.Arr, ArrayCopy(zeroTerm(byteArr), BVConst(0, 64), r.data, r.pos, n))
		term := &IfaceV{Tid: r.errT, Ref: r.errR}
		e.ioerrRecord(st, Not(ok), term)
		return one(st, sl, &IfaceV{Tid: Ite(ok, IntConst(0), term.Tid), Ref: Ite(ok, IntConst(0), term.Ref)})
	}
	// bufio.NewReader / NewWriter: a new buffered reader (4096-byte buffer) or writer; its ghost stream is its own
	models["bufio.NewReader"] = func(e *Exec, st *State, fr *Frame, fn *ssa.Function, args []Value, pos token.Pos) []Outcome {
		r := st.NewRef()
		e.ghSet(st, "rd.bufsize", BV(64), r, BVConst(4096, 64))
		return one(st, &PtrV{Kind: PObj, Base: r, Root: fn.Signature.Results().At(0).Type().(*types.Pointer).Elem()})
	}
	models["bufio.NewWriter"] = func(e *Exec, st *State, fr *Frame, fn *ssa.Function, args []Value, pos token.Pos) []Outcome {
		r := st.NewRef()
		return one(st, &PtrV{Kind: PObj, Base: r, Root: fn.Signature.Results().At(0).Type().(*types.Pointer).Elem()})
	}
	models["bufio.NewReaderSize"] = func(e *Exec, st *State, fr *Frame, fn *ssa.Function, args []Value, pos token.Pos) []Outcome {
		// a new reader with a buffer of max(size, 16) bytes (bufio's minimum); its stream is its own
		size := args[1].(*Term)
		r := st.NewRef()
		e.ghSet(st, "rd.bufsize", BV(64), r, Ite(BVSlt(size, BVConst(16, 64)), BVConst(16, 64), size))
		return one(st, &PtrV{Kind: PObj, Base: r, Root: fn.Signature.Results().At(0).Type().(*types.Pointer).Elem()})
	}
	models["(*bufio.Reader).Discard"] = func(e *Exec, st *State, fr *Frame, fn *ssa.Function, args []Value, pos token.Pos) []Outcome {
		ref := streamRef(args[0])
		want := args[1].(*Term)
		want = Ite(BVSlt(want, BVConst(0, 64)), BVConst(0, 64), want)
		_, _, n, err, _ := e.readN(st, ref, want, 1)
		return one(st, n, err)
	}
	models["(*bufio.Reader).Buffered"] = func(e *Exec, st *State, fr *Frame, fn *ssa.Function, args []Value, pos token.Pos) []Outcome {
		// some of the bytes still to come are already in the buffer: between 0 and min(what is left, buffer size)
		ref := streamRef(args[0])
		r := e.rd(st, ref)
		n := Fresh("buffered", BV(64))
		bs := e.ghGet(st, "rd.bufsize", BV(64), ref)
		st.Assume(And(BVUle(n, BVSub(r.n, r.pos)), BVUle(n, bs)))
		return one(st, n)
	}
	models["(*bufio.Reader).ReadByte"] = func(e *Exec, st *State, fr *Frame, fn *ssa.Function, args []Value, pos token.Pos) []Outcome {
		src, soff, _, err, ok := e.readN(st, streamRef(args[0]), BVConst(1, 64), 1)
		return one(st, Ite(ok, Select(src, soff), BVConst(0, 8)), err)
	}
	models["(*bufio.Reader).Read"] = func(e *Exec, st *State, fr *Frame, fn *ssa.Function, args []Value, pos token.Pos) []Outcome {
		recv := &IfaceV{Tid: IntConst(1), Ref: streamRef(args[0])}
		// a request at least as large as the reader's buffer is passed straight to the underlying reader, whose byte
		// count and error come back together (bufio.Reader.Read: `n, b.err = b.rd.Read(p); return n, b.readErr()`), so
		// like any io.Reader it may deliver its last bytes together with the terminal error
		outs, _ := e.readModel(st, fr, recv, args[1].(*SliceV), pos, true)
		return outs
	}
	models["(*bufio.Writer).Flush"] = func(e *Exec, st *State, fr *Frame, fn *ssa.Function, args []Value, pos token.Pos) []Outcome {
		// flushing may hit the writer's limit: modelled as a zero-length write that fails iff the limit was reached
		ref := streamRef(args[0])
		w := e.wr(st, ref)
		fail := BVUlt(w.limit, w.n)
		werr := &IfaceV{Tid: w.errT, Ref: w.errR}
		e.ioerrRecord(st, fail, werr)
		// ghost "flushed": how many of the bytes written are KNOWN to have been handed to the transport: only a
		// successful Flush says so (a buffered writer may or may not pass bytes on earlier)
		e.ghSet(st, "wr.flushed", BV(64), ref, Ite(fail, e.ghGet(st, "wr.flushed", BV(64), ref), w.n))
		return one(st, &IfaceV{Tid: Ite(fail, werr.Tid, IntConst(0)), Ref: Ite(fail, werr.Ref, IntConst(0))})
	}
}

// ghostPrimitive: accessors usable in spec functions.
func (e *Exec) ghostPrimitive(st *State, fr *Frame, fn *ssa.Function, args []Value, pos token.Pos) ([]Outcome, bool) {
	name := fn.Name()
	s := st
	if strings.HasPrefix(name, "ghost_old_") {
		if e.oldState == nil {
			panic(unsupported(name + " used where no entry state is available"))
		}
		s = e.oldState
		name = "ghost_" + strings.TrimPrefix(name, "ghost_old_")
	}
	idx := func(v Value) *Term { return v.(*Term) }
	if s != st {
		// stream invariants learned about the entry state are facts of the current path as well
		nf := len(s.facts)
		defer func() {
			for _, f := range s.facts[nf:] {
				st.AssumeFact(f)
			}
		}()
	}
	switch name {
	case "ghost_rd_pos":
		return one(st, e.rd(s, streamRef(args[0])).pos), true
	case "ghost_rd_len":
		return one(st, e.rd(s, streamRef(args[0])).n), true
	case "ghost_rd_at":
		return one(st, Select(e.rd(s, streamRef(args[0])).data, idx(args[1]))), true
	case "ghost_rd_err":
		r := e.rd(s, streamRef(args[0]))
		return one(st, &IfaceV{Tid: r.errT, Ref: r.errR}), true
	case "ghost_wr_len":
		return one(st, e.wrF(s, e.wrFamily(args[0]), streamRef(args[0])).n), true
	case "ghost_log_out": // the writer a *log.Logger made by log.New writes to
		p := args[0].(*PtrV)
		return one(st, &IfaceV{Tid: e.ghGet(s, "log.out.tid", SInt, p.Base), Ref: e.ghGet(s, "log.out.ref", SInt, p.Base)}), true
	case "ghost_rd_bufsize":
		return one(st, e.ghGet(s, "rd.bufsize", BV(64), streamRef(args[0]))), true
	case "ghost_wr_flushed":
		return one(st, e.ghGet(s, e.wrFamily(args[0])+".flushed", BV(64), streamRef(args[0]))), true
	case "ghost_wr_limit":
		return one(st, e.wr(s, streamRef(args[0])).limit), true
	case "ghost_wr_at":
		return one(st, Select(e.wrF(s, e.wrFamily(args[0]), streamRef(args[0])).data, idx(args[1]))), true
	case "ghost_wr_err":
		w := e.wr(s, streamRef(args[0]))
		return one(st, &IfaceV{Tid: w.errT, Ref: w.errR}), true
	case "ghost_emitted":
		return one(st, e.ghGet(s, "emitted", BV(64), IntConst(0))), true
	case "ghost_line_n":
		return one(st, e.ghGet(s, "line.n", BV(64), IntConst(0))), true
	case "ghost_line_format":
		return one(st, &StrV{Data: e.ghGet(s, "line.fmt.data", ArrSort(BV(64), BV(8)), IntConst(0)), Len: e.ghGet(s, "line.fmt.len", BV(64), IntConst(0))}), true
	case "ghost_line_arg":
		i := idx(args[0])
		if i.Op != "bvconst" || i.Val > 2 {
			panic(unsupported("ghost_line_arg needs a constant index below 3"))
		}
		cs := components(fn.Signature.Results().At(0).Type())
		ts := make([]*Term, len(cs))
		for k, c := range cs {
			ts[k] = e.ghGet(s, fmt.Sprintf("line.arg%d%s", i.Val, c.suffix), c.sort, IntConst(0))
		}
		return one(st, unflatten(fn.Signature.Results().At(0).Type(), &ts)), true
	case "ghost_calls": // how often the function under verification has called the named callee so far
		name := args[0].(*StrV)
		if name.Const == nil {
			panic(unsupported("ghost_calls needs a constant callee name"))
		}
		return one(st, e.ghGet(s, "calls."+*name.Const, BV(64), IntConst(0))), true
	}
	if strings.HasPrefix(name, "ghost_last_") { // first result (a pointer) of the latest counted call of that callee
		pt, ok := fn.Signature.Results().At(0).Type().Underlying().(*types.Pointer)
		if !ok {
			panic(unsupported(name + " must return a pointer"))
		}
		return one(st, termToPtr(e.ghGet(s, "calls.last."+strings.TrimPrefix(name, "ghost_last_"), SInt, IntConst(0)), pt.Elem())), true
	}
	if strings.HasPrefix(name, "ghost_lastv_") { // first result (an integer) of the latest counted call of that callee
		rs := scalarSort(fn.Signature.Results().At(0).Type())
		return one(st, e.ghGet(s, fmt.Sprintf("calls.lastv%d.%s", rs.Width(), strings.TrimPrefix(name, "ghost_lastv_")), rs, IntConst(0))), true
	}
	switch name {
	case "ghost_lastcid":
		return one(st, e.ghGet(s, "lastatomic", BV(64), IntConst(0))), true
	case "ghost_ioerr":
		return one(st, e.ioerrGet(s)), true
	case "ghost_root":
		return one(st, e.rootOf(st, args[0].(*IfaceV))), true
	}
	return nil, false
}

// rootOf unfolds the errors package's wrappers (withStack, withMessage) as far as the dynamic types are known.
func (e *Exec) rootOf(st *State, v *IfaceV) *IfaceV {
	for i := 0; i < 16; i++ {
		if v.Tid.Op != "intconst" || v.Tid.Val == 0 {
			return v
		}
		t := e.tidTypes[int(v.Tid.Val)-1]
		if t == nil {
			return v
		}
		switch t.String() {
		case "*github.com/ossrs/go-oryx-lib/errors.withStack":
			p := termToPtr(v.Ref, t.(*types.Pointer).Elem())
			p.Path = []int{0}
			v = st.LoadLoc(e.locOf(p)).(*IfaceV)
		case "*github.com/ossrs/go-oryx-lib/errors.withMessage":
			p := termToPtr(v.Ref, t.(*types.Pointer).Elem())
			p.Path = []int{0}
			v = st.LoadLoc(e.locOf(p)).(*IfaceV)
		default:
			return v
		}
	}
	return v
}

// invokeModel: method calls on interface values of unknown dynamic type that have a library contract.
func (e *Exec) invokeModel(st *State, fr *Frame, cc *ssa.CallCommon, recv *IfaceV, args []Value, pos token.Pos) ([]Outcome, bool) {
	it := cc.Value.Type().String()
	switch {
	case it == "reflect.Type":
		// run-time type descriptors: every query is pure; what it answers is left unspecified
		e.note("trusted: methods of reflect.Type are pure and return unspecified values")
		sig := cc.Method.Type().(*types.Signature)
		var rs []Value
		for i := 0; i < sig.Results().Len(); i++ {
			v := freshValue("reflect."+cc.Method.Name(), sig.Results().At(i).Type())
			e.assumeValid(st, sig.Results().At(i).Type(), v)
			if iv, ok := v.(*IfaceV); ok {
				st.Assume(Not(Eq(iv.Tid, IntConst(0))))
			}
			rs = append(rs, v)
		}
		return one(st, rs...), true
	case cc.Method.Name() == "Read" && (it == "io.Reader" || it == "io.ReadWriter" || it == "io.ReadCloser"):
		// io.Reader contract: a read delivers between 1 and len(p) of the remaining bytes (short reads are allowed),
		// or fails with the terminal error when nothing is left
		return e.readModel(st, fr, recv, args[0].(*SliceV), pos, true)
	case false:
		buf := args[0].(*SliceV)
		ref := recv.Ref
		r := e.rd(st, ref)
		avail := BVSub(r.n, r.pos)
		empty := Eq(buf.Len, BVConst(0, 64))
		atEnd := Eq(avail, BVConst(0, 64))
		n := Fresh("nread", BV(64))
		st.AssumeFact(BVUle(n, buf.Len))
		st.Assume(Implies(Or(empty, atEnd), Eq(n, BVConst(0, 64))))
		st.Assume(Implies(Not(Or(empty, atEnd)), And(BVUle(BVConst(1, 64), n), BVUle(n, avail))))
		e.ghSet(st, "rd.pos", BV(64), ref, BVAdd(r.pos, n))
		e.frameCheck(st, fr, Loc{Key: elemKey(buf.Elem), Idx: []*Term{buf.Arr}}, pos)
		c := comp{"", BV(8)}
		st.setArrayOf(buf.Elem, c, buf.Arr, ArrayCopy(st.arrayOf(buf.Elem, c, buf.Arr), buf.Off, r.data, r.pos, n))
		fail := And(Not(empty), atEnd)
		term := &IfaceV{Tid: r.errT, Ref: r.errR}
		e.ioerrRecord(st, fail, term)
		return one(st, n, &IfaceV{Tid: Ite(fail, term.Tid, IntConst(0)), Ref: Ite(fail, term.Ref, IntConst(0))}), true
	case cc.Method.Name() == "Write" && (it == "io.Writer" || it == "io.ReadWriter" || it == "io.WriteCloser"):
		e.note("trusted: io.Writer.Write contract over ghost byte streams")
		buf := args[0].(*SliceV)
		d := st.arrayOf(buf.Elem, comp{"", BV(8)}, buf.Arr)
		n, err := e.writeN(st, recv.Ref, d, buf.Off, buf.Len)
		return one(st, n, err), true
	case it == "net.Conn" && cc.Method.Name() == "Write":
		e.note("trusted: net.Conn.Write contract over a ghost byte stream (the transport accepts bytes in order until it fails)")
		buf := args[0].(*SliceV)
		e.connWriteGuard(st, fr, cc, pos)
		d := st.arrayOf(buf.Elem, comp{"", BV(8)}, buf.Arr)
		n, err := e.writeN(st, recv.Ref, d, buf.Off, buf.Len)
		return one(st, n, err), true
	case it == "net.Conn" && (cc.Method.Name() == "SetWriteDeadline" || cc.Method.Name() == "SetReadDeadline" || cc.Method.Name() == "SetDeadline" || cc.Method.Name() == "Close"):
		return one(st, freshValue("neterr", cc.Signature().Results().At(0).Type())), true
	case it == "net.Error" && (cc.Method.Name() == "Temporary" || cc.Method.Name() == "Timeout"):
		return one(st, Fresh("neterrflag", SBool)), true
	case it == "net.Error" && cc.Method.Name() == "Error":
		s := &StrV{Data: App("errtext.data", byteArr, recv.Tid, recv.Ref), Len: App("errtext.len", BV(64), recv.Tid, recv.Ref)}
		st.AssumeFact(BVUle(s.Len, BVConst(maxLen, 64)))
		return one(st, s), true
	case cc.Method.Name() == "Value" && it == "context.Context":
		return one(st, e.ctxValue(st, recv, args[0].(*IfaceV))), true
	case cc.Method.Name() == "Error" && it == "error":
		e.note("trusted: error.Error() of a foreign error value is an unspecified string (a function of the value)")
		s := &StrV{Data: App("errtext.data", byteArr, recv.Tid, recv.Ref), Len: App("errtext.len", BV(64), recv.Tid, recv.Ref)}
		st.AssumeFact(BVUle(s.Len, BVConst(maxLen, 64)))
		return one(st, s), true
	}
	return nil, false
}

// context values: context.WithValue creates an object with ghost fields key, val, parent.
func (e *Exec) ctxValue(st *State, recv, key *IfaceV) *IfaceV {
	isVal := e.ghGet(st, "ctx.isvalue", SBool, recv.Ref)
	kT, kR := e.ghGet(st, "ctx.key.tid", SInt, recv.Ref), e.ghGet(st, "ctx.key.ref", SInt, recv.Ref)
	vT, vR := e.ghGet(st, "ctx.val.tid", SInt, recv.Ref), e.ghGet(st, "ctx.val.ref", SInt, recv.Ref)
	pT, pR := e.ghGet(st, "ctx.parent.tid", SInt, recv.Ref), e.ghGet(st, "ctx.parent.ref", SInt, recv.Ref)
	match := And(isVal, Eq(kT, key.Tid), Eq(kR, key.Ref))
	// what the parent chain (or a foreign context) answers: an unspecified function of (context, key)
	inT := Ite(isVal, pT, recv.Tid)
	inR := Ite(isVal, pR, recv.Ref)
	uT := App("ctx.lookup.tid", SInt, inT, inR, key.Tid, key.Ref)
	uR := App("ctx.lookup.ref", SInt, inT, inR, key.Tid, key.Ref)
	st.AssumeFact(IntLe(IntConst(0), uT))
	return &IfaceV{Tid: Ite(match, vT, uT), Ref: Ite(match, vR, uR)}
}

func init() {
	models["context.WithValue"] = func(e *Exec, st *State, fr *Frame, fn *ssa.Function, args []Value, pos token.Pos) []Outcome {
		e.note("trusted: context.WithValue/Value contract (a value context answers its own key, otherwise delegates to its parent)")
		parent, key, val := args[0].(*IfaceV), args[1].(*IfaceV), args[2].(*IfaceV)
		e.oblige(st, fr, "safe.nil", pos, Not(Eq(parent.Tid, IntConst(0))))
		r := st.NewRef()
		e.ghSet(st, "ctx.isvalue", SBool, r, True)
		e.ghSet(st, "ctx.key.tid", SInt, r, key.Tid)
		e.ghSet(st, "ctx.key.ref", SInt, r, key.Ref)
		e.ghSet(st, "ctx.val.tid", SInt, r, val.Tid)
		e.ghSet(st, "ctx.val.ref", SInt, r, val.Ref)
		e.ghSet(st, "ctx.parent.tid", SInt, r, parent.Tid)
		e.ghSet(st, "ctx.parent.ref", SInt, r, parent.Ref)
		return one(st, &IfaceV{Tid: e.tidNamed("*context.valueCtx"), Ref: r})
	}
	atomicAdd := func(w int) model {
		return func(e *Exec, st *State, fr *Frame, fn *ssa.Function, args []Value, pos token.Pos) []Outcome {
			p := args[0].(*PtrV)
			e.nilCheck(st, fr, p, pos)
			l := e.locOf(p)
			e.frameCheck(st, fr, l, pos)
			nv := BVAdd(st.LoadLoc(l).(*Term), args[1].(*Term))
			st.StoreLoc(l, nv)
			e.ghSet(st, "lastatomic", BV(64), IntConst(0), SignExt(nv, 64))
			return one(st, nv)
		}
	}
	// an atomic load of a variable other goroutines update concurrently: whatever any of them stored last, i.e. an
	// arbitrary value (in particular NOT necessarily what this goroutine's own preceding atomic.Add returned)
	atomicLoad := func(w int) model {
		return func(e *Exec, st *State, fr *Frame, fn *ssa.Function, args []Value, pos token.Pos) []Outcome {
			p := args[0].(*PtrV)
			e.nilCheck(st, fr, p, pos)
			e.note("atomic loads return an arbitrary value (the variable is shared with other goroutines)")
			return one(st, Fresh("atomic.load", BV(w)))
		}
	}
	models["sync/atomic.LoadInt64"] = atomicLoad(64)
	models["sync/atomic.LoadUint64"] = atomicLoad(64)
	models["sync/atomic.LoadInt32"] = atomicLoad(32)
	models["sync/atomic.LoadUint32"] = atomicLoad(32)
	models["sync/atomic.AddInt64"] = atomicAdd(64)
	models["sync/atomic.AddInt32"] = atomicAdd(32)
	models["sync/atomic.AddUint64"] = atomicAdd(64)
	models["sync/atomic.AddUint32"] = atomicAdd(32)
	emit := func(e *Exec, st *State, fr *Frame, fn *ssa.Function, args []Value, pos token.Pos) []Outcome {
		e.note("trusted: (*log.Logger).Print* writes exactly one line to the logger's writer, atomically")
		p := args[0].(*PtrV)
		e.nilCheck(st, fr, p, pos)
		cur := e.ghGet(st, "emitted", BV(64), IntConst(0))
		e.ghSet(st, "emitted", BV(64), IntConst(0), BVAdd(cur, BVConst(1, 64)))
		// what the line is made of: the format (Printf) and the first arguments, for ghost_line_format / ghost_line_arg
		rest := args[1:]
		if fn.Name() == "Printf" {
			f := rest[0].(*StrV)
			e.ghSet(st, "line.fmt.data", ArrSort(BV(64), BV(8)), IntConst(0), f.Data)
			e.ghSet(st, "line.fmt.len", BV(64), IntConst(0), f.Len)
			rest = rest[1:]
		}
		if va, ok := rest[0].(*SliceV); ok {
			e.ghSet(st, "line.n", BV(64), IntConst(0), va.Len)
			cs := components(va.Elem)
			for i := 0; i < 3; i++ {
				for _, c := range cs {
					e.ghSet(st, fmt.Sprintf("line.arg%d%s", i, c.suffix), c.sort, IntConst(0), Select(st.arrayOf(va.Elem, c, va.Arr), BVAdd(va.Off, BVConst(uint64(i), 64))))
				}
			}
		}
		return one(st)
	}
	// log.New: a fresh logger that remembers its writer (ghost_log_out)
	models["log.New"] = func(e *Exec, st *State, fr *Frame, fn *ssa.Function, args []Value, pos token.Pos) []Outcome {
		e.note("trusted: log.New returns a new logger writing to the writer it was given")
		out := args[0].(*IfaceV)
		r := st.NewRef()
		e.ghSet(st, "log.out.tid", SInt, r, out.Tid)
		e.ghSet(st, "log.out.ref", SInt, r, out.Ref)
		return one(st, &PtrV{Kind: PObj, Base: r, Root: fn.Signature.Results().At(0).Type().(*types.Pointer).Elem()})
	}
	models["(*log.Logger).Println"] = emit
	models["(*log.Logger).Printf"] = emit
	models["(*log.Logger).Print"] = emit
	// reflection (rtmp.ExpectPacket): descriptors and values are opaque; Set stores into the caller's target only
	nonNilIface := func(name string) model {
		return func(e *Exec, st *State, fr *Frame, fn *ssa.Function, args []Value, pos token.Pos) []Outcome {
			outs := pureOpaque(name)(e, st, fr, fn, args, pos)
			for _, o := range outs {
				for _, r := range o.results {
					if iv, ok := r.(*IfaceV); ok {
						o.st.Assume(Not(Eq(iv.Tid, IntConst(0))))
					}
				}
			}
			return outs
		}
	}
	models["reflect.TypeOf"] = nonNilIface("reflect.TypeOf")
	models["reflect.ValueOf"] = pureOpaque("reflect.ValueOf")
	models["reflect.New"] = pureOpaque("reflect.New")
	models["(reflect.Value).Elem"] = pureOpaque("reflect.Value.Elem")
	models["(reflect.Value).Interface"] = pureOpaque("reflect.Value.Interface")
	models["(reflect.Value).Set"] = func(e *Exec, st *State, fr *Frame, fn *ssa.Function, args []Value, pos token.Pos) []Outcome {
		e.note("ASSUMED: reflect.Value.Set stores only into the variable the caller passed a pointer to (not tracked)")
		return one(st)
	}
	models["fmt.Fprintf"] = pureOpaque("fmt.Fprintf")
	models["fmt.Fprintln"] = pureOpaque("fmt.Fprintln")
	models["fmt.Fprint"] = pureOpaque("fmt.Fprint")
}

// readModel: io.Reader.Read contract: a read delivers between 1 and len(p) of the remaining bytes (short reads are
// allowed), or fails with the terminal error when nothing is left.
func (e *Exec) readModel(st *State, fr *Frame, recv *IfaceV, buf *SliceV, pos token.Pos, dataWithErr bool) ([]Outcome, bool) {
	e.note("trusted: io.Reader.Read contract over ghost byte streams (short reads allowed; an arbitrary reader may deliver its last bytes together with the terminal error)")
	ref := recv.Ref
	r := e.rd(st, ref)
	avail := BVSub(r.n, r.pos)
	empty := Eq(buf.Len, BVConst(0, 64))
	atEnd := Eq(avail, BVConst(0, 64))
	n := Fresh("nread", BV(64))
	st.AssumeFact(BVUle(n, buf.Len))
	st.Assume(Implies(Or(empty, atEnd), Eq(n, BVConst(0, 64))))
	st.Assume(Implies(Not(Or(empty, atEnd)), And(BVUle(BVConst(1, 64), n), BVUle(n, avail))))
	e.ghSet(st, "rd.pos", BV(64), ref, BVAdd(r.pos, n))
	e.frameCheck(st, fr, Loc{Key: elemKey(buf.Elem), Idx: []*Term{buf.Arr}}, pos)
	c := comp{"", BV(8)}
	st.setArrayOf(buf.Elem, c, buf.Arr, ArrayCopy(st.arrayOf(buf.Elem, c, buf.Arr), buf.Off, r.data, r.pos, n))
	fail := And(Not(empty), atEnd)
	if dataWithErr {
		// io.Reader allows n > 0 together with the error once the stream is exhausted by this very call
		early := Fresh("errWithData", SBool)
		fail = Or(fail, And(Not(empty), Not(atEnd), Eq(n, avail), early))
	}
	term := &IfaceV{Tid: r.errT, Ref: r.errR}
	e.ioerrRecord(st, fail, term)
	return one(st, n, &IfaceV{Tid: Ite(fail, term.Tid, IntConst(0)), Ref: Ite(fail, term.Ref, IntConst(0))}), true
}

// connWriteGuard: a transport write through a field declared `shared <field>.Write guarded_by <lockfield>` requires
// the lock channel of the same object to be held.
func (e *Exec) connWriteGuard(st *State, fr *Frame, cc *ssa.CallCommon, pos token.Pos) {
	if e.discovery > 0 || e.specMode > 0 {
		return
	}
	ld, ok := cc.Value.(*ssa.UnOp)
	if !ok {
		return
	}
	fa, ok := ld.X.(*ssa.FieldAddr)
	if !ok {
		return
	}
	pv, ok := fr.env[fa].(*PtrV)
	if !ok || pv.Kind != PObj || len(pv.Path) == 0 {
		return
	}
	sty := fa.X.Type().Underlying().(*types.Pointer).Elem().Underlying().(*types.Struct)
	fname := sty.Field(fa.Field).Name()
	for _, sd := range e.specs.shared {
		if sd.What != fname+".Write" {
			continue
		}
		// the guard field of the same object
		for i := 0; i < sty.NumFields(); i++ {
			if sty.Field(i).Name() == sd.Guard {
				gp := *pv
				gp.Path = append(append([]int(nil), pv.Path[:len(pv.Path)-1]...), i)
				ch := st.LoadLoc(e.locOf(&gp)).(*Term)
				e.oblige(st, fr, "guarded."+sd.Label, pos, e.chanHeld(st, ch))
			}
		}
	}
	for _, ai := range e.specs.atInvoke {
		if ai.What != fname+"."+cc.Method.Name() {
			continue
		}
		owner := *pv
		owner.Path = append([]int(nil), pv.Path[:len(pv.Path)-1]...)
		t := e.evalSpec(st, fr, ai.Clause, func(n string, t types.Type) (Value, bool) { return &owner, true }, true)
		e.obligeNamed(st, fmt.Sprintf("%s#at-invoke.%s.%s%s", e.curFn, ai.What, strings.Join(ai.Clause.Labels, ","), relPos(fr.fn, pos)), "at-invoke", ai.Clause.Labels, "", t)
		st.Assume(t)
	}
}

// interfere: a lock of the object owner (a struct of type sty) is being acquired: other goroutines may have changed the
// fields declared `interference`, within their rely condition.
func (e *Exec) interfere(st *State, owner *PtrV, sty *types.Struct) {
	if e.specMode > 0 {
		return
	}
	for _, d := range e.specs.interf {
		for i := 0; i < sty.NumFields(); i++ {
			if sty.Field(i).Name() != d.Field {
				continue
			}
			fp := *owner
			fp.Path = append(append([]int(nil), owner.Path...), i)
			l := e.locOf(&fp)
			old := st.LoadLoc(l)
			nv := freshValue("interf."+d.Field, sty.Field(i).Type())
			e.assumeValid(st, sty.Field(i).Type(), nv)
			st.StoreLoc(l, nv)
			st.Assume(e.evalSpecArgs(st, d.Rely.SpecFn, []Value{old, nv}, false))
			e.note("INTERFERENCE: field " + d.Field + " is re-read as arbitrary (within " + d.Rely.Name + ") at every lock acquisition of its object")
		}
	}
}

// interfereAt: v is the SSA value of a lock (a channel loaded from a field, or the address of a mutex field)
func (e *Exec) interfereAt(st *State, fr *Frame, v ssa.Value) {
	if len(e.specs.interf) == 0 {
		return
	}
	if ld, ok := v.(*ssa.UnOp); ok {
		v = ld.X
	}
	fa, ok := v.(*ssa.FieldAddr)
	if !ok {
		return
	}
	owner, ok := fr.env[fa.X].(*PtrV)
	if !ok || owner.Kind != PObj {
		return
	}
	sty, ok := fa.X.Type().Underlying().(*types.Pointer).Elem().Underlying().(*types.Struct)
	if !ok {
		return
	}
	e.interfere(st, owner, sty)
}

// guaranteeAt: a store to a field declared `interference` must itself satisfy the rely condition
func (e *Exec) guaranteeAt(st *State, fr *Frame, x *ssa.Store, p *PtrV, nv Value) {
	if len(e.specs.interf) == 0 || e.specMode > 0 || e.discovery > 0 {
		return
	}
	fa, ok := x.Addr.(*ssa.FieldAddr)
	if !ok {
		return
	}
	sty, ok := fa.X.Type().Underlying().(*types.Pointer).Elem().Underlying().(*types.Struct)
	if !ok {
		return
	}
	for _, d := range e.specs.interf {
		if sty.Field(fa.Field).Name() != d.Field {
			continue
		}
		old := st.LoadLoc(e.locOf(p))
		t := e.evalSpecArgs(st, d.Rely.SpecFn, []Value{old, nv}, true)
		e.oblige(st, fr, "interference.guarantee."+d.Field, x.Pos(), t)
	}
}

func init() {
	models["time.NewTimer"] = func(e *Exec, st *State, fr *Frame, fn *ssa.Function, args []Value, pos token.Pos) []Outcome {
		t := fn.Signature.Results().At(0).Type().(*types.Pointer).Elem()
		p := e.alloc(st, t)
		// the timer's channel is some channel distinct from nil
		cp := *p
		cp.Path = []int{0}
		ch := Fresh("timerC", SInt)
		st.AssumeFact(Not(Eq(ch, IntConst(0))))
		st.StoreLoc(e.locOf(&cp), ch)
		return one(st, p)
	}
	models["(*time.Timer).Stop"] = func(e *Exec, st *State, fr *Frame, fn *ssa.Function, args []Value, pos token.Pos) []Outcome {
		return one(st, Fresh("stopped", SBool))
	}
	models["math/rand.Uint32"] = pureOpaque("rand.Uint32")
}
