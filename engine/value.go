package main

// Symbolic values, typed heap, per-path state.

import (
	"fmt"
	"go/types"
	"os"
	"runtime/debug"
	"sort"
	"strings"
)

type Value interface{}

// lastIns is the instruction being executed (diagnostics only: GOVC_TRACE_UNSUP)
var lastIns interface{ String() string }

type PtrKind int

const (
	PObj  PtrKind = iota // pointer to (a field path inside) a heap object
	PElem                // pointer to an array element
	PArr                 // pointer to a whole array ( *[N]T )
)

type PtrV struct {
	Kind PtrKind
	Base *Term      // PObj: object reference (Int, 0 = nil)
	Root types.Type // PObj: type of the object Base refers to
	Path []int      // PObj: field index path from Root
	Arr  *Term      // PElem/PArr: array reference (Int)
	Idx  *Term      // PElem: absolute index (BV64)
	Elem types.Type // PElem/PArr element type
	N    int64      // PArr length
}

// UnsafeV: an unsafe.Pointer (or a typed pointer made from one). Nothing is known about where it points: a load through
// it yields an arbitrary value, a store through it is only accepted in a function with an `unsafe-abstract` directive
// and then makes the named slice's elements arbitrary (DESIGN 11: unsafe code abstracted).
type UnsafeV struct{}

type SliceV struct {
	Arr, Off, Len, Cap *Term
	Elem               types.Type
}

type StrV struct {
	Data  *Term // Array BV64 BV8, characters at 0..Len-1
	Len   *Term // BV64
	Const *string
}

type StructV struct {
	T *types.Struct
	F []Value
}

type ArrV struct { // array value
	Data *Term // Array BV64 <elem sort>; only scalar-sorted elements supported
	N    int64
	Elem types.Type
}

type IfaceV struct {
	Tid *Term // Int, 0 = nil interface
	Ref *Term // Int: pointer payload reference, or box reference
}

type MapV struct {
	Ref *Term
	T   *types.Map
}

type FuncV struct {
	Fn   interface{} // *ssa.Function
	Bind []Value
	Opq  *Term // opaque function value (Int) when Fn == nil
}

type TupleV struct{ Vs []Value }

// GhostV is the value of an opaque library struct (bytes.Buffer, sync.Mutex, ...): only ghost components.
type GhostV struct {
	Name string
	C    []*Term
}

// ghostComps lists the ghost components modelling an opaque library struct.
func ghostComps(name string) []comp {
	switch name {
	case "bytes.Buffer":
		return []comp{{".$buf.arr", SInt}, {".$buf.off", BV(64)}, {".$buf.len", BV(64)}, {".$buf.cap", BV(64)}}
	case "sync.Mutex", "sync.RWMutex":
		return []comp{{".$held", SBool}}
	case "time.Time":
		return []comp{{".$ns", BV(64)}} // abstract instant: signed nanoseconds since an arbitrary epoch (no wrap-around assumed)
	}
	return nil
}

// ---------- sorts of Go types ----------

func isScalar(t types.Type) bool {
	switch u := t.Underlying().(type) {
	case *types.Basic:
		return u.Kind() != types.String && u.Kind() != types.UntypedString
	case *types.Pointer, *types.Map, *types.Chan, *types.Signature:
		return true
	}
	return false
}

func scalarSort(t types.Type) Sort {
	switch u := t.Underlying().(type) {
	case *types.Basic:
		switch u.Kind() {
		case types.Bool, types.UntypedBool:
			return SBool
		case types.Int8, types.Uint8:
			return BV(8)
		case types.Int16, types.Uint16:
			return BV(16)
		case types.Int32, types.Uint32, types.Float32, types.UntypedRune:
			return BV(32)
		case types.Int, types.Uint, types.Int64, types.Uint64, types.Uintptr, types.Float64, types.UntypedInt, types.UntypedFloat, types.UnsafePointer:
			return BV(64)
		}
	case *types.Pointer, *types.Map, *types.Chan, *types.Signature:
		return SInt
	}
	panic(unsupported("scalarSort of " + t.String()))
}

func isSigned(t types.Type) bool {
	if b, ok := t.Underlying().(*types.Basic); ok {
		return b.Info()&types.IsInteger != 0 && b.Info()&types.IsUnsigned == 0
	}
	return false
}
func isFloat(t types.Type) bool {
	if b, ok := t.Underlying().(*types.Basic); ok {
		return b.Info()&types.IsFloat != 0
	}
	return false
}
func isString(t types.Type) bool {
	if b, ok := t.Underlying().(*types.Basic); ok {
		return b.Info()&types.IsString != 0
	}
	return false
}
func isInteger(t types.Type) bool {
	if b, ok := t.Underlying().(*types.Basic); ok {
		return b.Info()&types.IsInteger != 0
	}
	return false
}

type Unsupported struct{ Msg string }

func (u Unsupported) Error() string { return "unsupported: " + u.Msg }
func unsupported(msg string) Unsupported {
	if os.Getenv("GOVC_TRACE_UNSUP") != "" {
		fmt.Fprintf(os.Stderr, "UNSUPPORTED %s at %s\n%s\n", msg, lastIns, debug.Stack())
	}
	return Unsupported{msg}
}

// ---------- components: flattening a typed value into named scalar components ----------

type comp struct {
	suffix string
	sort   Sort
}

var compCache = map[string][]comp{}

// components lists the scalar components a value of type t is flattened into.
func components(t types.Type) []comp {
	k := t.String()
	if c, ok := compCache[k]; ok {
		return c
	}
	var out []comp
	if g, ok := ghostStruct(t); ok {
		out = ghostComps(g)
		compCache[k] = out
		return out
	}
	switch u := t.Underlying().(type) {
	case *types.Basic:
		if isString(t) {
			out = []comp{{".sdata", ArrSort(BV(64), BV(8))}, {".slen", BV(64)}}
		} else {
			out = []comp{{"", scalarSort(t)}}
		}
	case *types.Pointer, *types.Map, *types.Chan, *types.Signature:
		out = []comp{{"", SInt}}
	case *types.Slice:
		out = []comp{{".arr", SInt}, {".off", BV(64)}, {".len", BV(64)}, {".cap", BV(64)}}
	case *types.Interface:
		out = []comp{{".tid", SInt}, {".ref", SInt}}
	case *types.Struct:
		for i := 0; i < u.NumFields(); i++ {
			f := u.Field(i)
			for _, c := range components(f.Type()) {
				out = append(out, comp{"." + f.Name() + c.suffix, c.sort})
			}
		}
	case *types.Array:
		if !isScalar(u.Elem()) {
			panic(unsupported("array of non-scalar elements: " + t.String()))
		}
		out = []comp{{".adata", ArrSort(BV(64), scalarSort(u.Elem()))}}
	default:
		panic(unsupported("components of " + t.String()))
	}
	compCache[k] = out
	return out
}

// flatten produces the component terms of v (type t), in components(t) order.
func flatten(t types.Type, v Value) []*Term {
	if _, ok := ghostStruct(t); ok {
		return v.(*GhostV).C
	}
	switch u := t.Underlying().(type) {
	case *types.Basic:
		if isString(t) {
			s := v.(*StrV)
			return []*Term{s.Data, s.Len}
		}
		return []*Term{v.(*Term)}
	case *types.Pointer:
		return []*Term{ptrToTerm(v)}
	case *types.Map:
		return []*Term{v.(*MapV).Ref}
	case *types.Chan:
		return []*Term{v.(*Term)}
	case *types.Signature:
		f := v.(*FuncV)
		if f.Opq == nil {
			if f.Fn != nil && len(f.Bind) == 0 {
				return []*Term{funcID(f.Fn)}
			}
			panic(unsupported("storing a closure with captured variables into memory"))
		}
		return []*Term{f.Opq}
	case *types.Slice:
		s := v.(*SliceV)
		return []*Term{s.Arr, s.Off, s.Len, s.Cap}
	case *types.Interface:
		i := v.(*IfaceV)
		return []*Term{i.Tid, i.Ref}
	case *types.Struct:
		s := v.(*StructV)
		var out []*Term
		for i := 0; i < u.NumFields(); i++ {
			out = append(out, flatten(u.Field(i).Type(), s.F[i])...)
		}
		return out
	case *types.Array:
		return []*Term{v.(*ArrV).Data}
	}
	panic(unsupported("flatten " + t.String()))
}

// unflatten is the inverse of flatten; it consumes terms from ts.
func unflatten(t types.Type, ts *[]*Term) Value {
	next := func() *Term { x := (*ts)[0]; *ts = (*ts)[1:]; return x }
	if g, ok := ghostStruct(t); ok {
		gv := &GhostV{Name: g}
		for range ghostComps(g) {
			gv.C = append(gv.C, next())
		}
		return gv
	}
	switch u := t.Underlying().(type) {
	case *types.Basic:
		if isString(t) {
			d := next()
			l := next()
			return &StrV{Data: d, Len: l}
		}
		return next()
	case *types.Pointer:
		return termToPtr(next(), u.Elem())
	case *types.Map:
		return &MapV{Ref: next(), T: u}
	case *types.Chan:
		return next()
	case *types.Signature:
		return &FuncV{Opq: next()}
	case *types.Slice:
		a, o, l, c := next(), next(), next(), next()
		return &SliceV{Arr: a, Off: o, Len: l, Cap: c, Elem: u.Elem()}
	case *types.Interface:
		ti, r := next(), next()
		return &IfaceV{Tid: ti, Ref: r}
	case *types.Struct:
		s := &StructV{T: u}
		for i := 0; i < u.NumFields(); i++ {
			s.F = append(s.F, unflatten(u.Field(i).Type(), ts))
		}
		return s
	case *types.Array:
		return &ArrV{Data: next(), N: u.Len(), Elem: u.Elem()}
	}
	panic(unsupported("unflatten " + t.String()))
}

func ptrToTerm(v Value) *Term {
	p := v.(*PtrV)
	switch p.Kind {
	case PObj:
		if len(p.Path) != 0 {
			return ipTerm(p)
		}
		return p.Base
	case PArr:
		return p.Arr
	}
	panic(unsupported("element pointer escapes into memory or a symbolic value"))
}

// Interior pointers (&obj.f.g) that are stored into memory or boxed into an interface are carried as the
// uninterpreted application ip:<root type>:<path>(base). They are recovered only when a load resolves syntactically to
// such a term; a pointer term that may be an interior pointer but is not syntactically one is outside the subset.
type ipInfo struct {
	root types.Type
	path []int
}

var ipRegistry = map[string]ipInfo{}

func ipTerm(p *PtrV) *Term {
	name := "ip:" + typeKey(p.Root)
	for _, i := range p.Path {
		name += fmt.Sprintf(".%d", i)
	}
	if _, ok := ipRegistry[name]; !ok {
		ipRegistry[name] = ipInfo{p.Root, append([]int(nil), p.Path...)}
	}
	return App(name, SInt, p.Base)
}

func termToPtr(t *Term, elem types.Type) *PtrV {
	if t.Op == "app" && strings.HasPrefix(t.Name, "ip:") {
		inf := ipRegistry[t.Name]
		return &PtrV{Kind: PObj, Base: t.Args[0], Root: inf.root, Path: append([]int(nil), inf.path...)}
	}
	if t.hasIP {
		panic(unsupported("pointer value that may be an interior pointer"))
	}
	if a, ok := elem.Underlying().(*types.Array); ok {
		return &PtrV{Kind: PArr, Arr: t, Elem: a.Elem(), N: a.Len()}
	}
	return &PtrV{Kind: PObj, Base: t, Root: elem}
}

// zeroValue returns the zero value of type t.
func zeroValue(t types.Type) Value {
	cs := components(t)
	ts := make([]*Term, len(cs))
	for i, c := range cs {
		ts[i] = zeroTerm(c.sort)
	}
	return unflatten(t, &ts)
}

func zeroTerm(s Sort) *Term {
	switch {
	case s == SBool:
		return False
	case s == SInt:
		return IntConst(0)
	case s.IsBV():
		return BVConst(0, s.Width())
	case s.IsArray():
		_, e := s.ArrayParts()
		return ConstArray(s, zeroTerm(e))
	}
	panic("zeroTerm " + string(s))
}

// freshValue builds a fresh symbolic value of type t.
func freshValue(name string, t types.Type) Value {
	cs := components(t)
	ts := make([]*Term, len(cs))
	for i, c := range cs {
		ts[i] = Fresh(name+c.suffix, c.sort)
	}
	return unflatten(t, &ts)
}

// iteValue merges two values of type t.
func iteValue(c *Term, t types.Type, a, b Value) Value {
	fa, fb := flatten(t, a), flatten(t, b)
	out := make([]*Term, len(fa))
	for i := range fa {
		out[i] = Ite(c, fa[i], fb[i])
	}
	return unflatten(t, &out)
}

// ---------- heap keys ----------

func typeKey(t types.Type) string {
	if n, ok := t.(*types.Named); ok {
		if n.Obj().Pkg() != nil {
			return n.Obj().Pkg().Name() + "." + n.Obj().Name()
		}
		return n.Obj().Name()
	}
	return "cell:" + canonTypeString(t)
}

// fieldKey returns the heap key prefix of the location Root.path and the type at that location.
func fieldKey(root types.Type, path []int) (string, types.Type) {
	k := typeKey(root)
	t := root
	for _, i := range path {
		st := t.Underlying().(*types.Struct)
		f := st.Field(i)
		k += "." + f.Name()
		t = f.Type()
	}
	if len(path) == 0 {
		if _, ok := root.Underlying().(*types.Struct); !ok {
			k += ".$"
		}
	}
	return k, t
}

func elemKey(elem types.Type) string {
	return "A:" + canonTypeString(elem)
}

// canonTypeString: like types.TypeString but insensitive to the byte/uint8 and rune/int32 aliases.
func canonTypeString(t types.Type) string {
	s := types.TypeString(t, func(p *types.Package) string { return p.Name() })
	if b, ok := t.(*types.Basic); ok {
		switch b.Kind() {
		case types.Uint8:
			return "uint8"
		case types.Int32:
			return "int32"
		}
	}
	s = strings.Replace(s, "[]byte", "[]uint8", -1)
	return s
}

// ---------- state ----------

type State struct {
	facts   []*Term // always-valid facts (type invariants of values read from memory); hoisted out of spec evaluation
	pc      []*Term
	heaps   map[string]*Term
	base    int             // index of the current allocation base symbol a<base>
	allocN  int             // allocations since base
	written map[string]bool // heap keys stored to (for loop modset discovery), shared along a path
	gw      []ghostWrite    // ghost stream cells written (for ghost frame checks)
	dead    bool
}

func NewState() *State {
	return &State{heaps: map[string]*Term{}, written: map[string]bool{}}
}

func (s *State) Clone() *State {
	n := &State{base: s.base, allocN: s.allocN}
	n.pc = append([]*Term(nil), s.pc...)
	n.facts = append([]*Term(nil), s.facts...)
	n.gw = append([]ghostWrite(nil), s.gw...)
	n.heaps = make(map[string]*Term, len(s.heaps))
	for k, v := range s.heaps {
		n.heaps[k] = v
	}
	n.written = make(map[string]bool, len(s.written))
	for k := range s.written {
		n.written[k] = true
	}
	return n
}

var debugDead func(why string, t *Term)

func (s *State) Assume(t *Term) {
	if t == True {
		return
	}
	if t == False {
		if debugDead != nil && !s.dead {
			debugDead("assume false", t)
		}
		s.dead = true
	}
	for _, p := range s.pc {
		if p == t {
			return
		}
		if p == Not(t) {
			if debugDead != nil && !s.dead {
				debugDead("negation in pc", t)
			}
			s.dead = true
		}
	}
	s.pc = append(s.pc, t)
}

func (s *State) PC() *Term { return And(And(s.pc...), And(s.facts...)) }

// AssumeFact records a fact that holds in every reachable state (a type invariant), independent of the path.
func (s *State) AssumeFact(t *Term) {
	if t == True {
		return
	}
	if t == False {
		if debugDead != nil && !s.dead {
			debugDead("fact false", t)
		}
		s.dead = true
	}
	for _, p := range s.facts {
		if p == t {
			return
		}
	}
	s.facts = append(s.facts, t)
	learnFact(t)
}

// knows reports whether t (or its negation) is syntactically implied by the path condition.
// eqConstIn: does the path condition pin x to a constant?
func (s *State) eqConstIn(x *Term) *Term {
	for _, p := range s.pc {
		if p.Op == "=" {
			if p.Args[0] == x && p.Args[1].IsConst() {
				return p.Args[1]
			}
			if p.Args[1] == x && p.Args[0].IsConst() {
				return p.Args[0]
			}
		}
	}
	return nil
}

func (s *State) knows(t *Term) (val, ok bool) {
	if t == True {
		return true, true
	}
	if t == False {
		return false, true
	}
	// x == c2 while the path condition says x == c1
	if eq, neg := t, false; true {
		if eq.Op == "not" {
			eq, neg = eq.Args[0], true
		}
		if eq.Op == "=" {
			var x, c *Term
			if eq.Args[1].IsConst() {
				x, c = eq.Args[0], eq.Args[1]
			} else if eq.Args[0].IsConst() {
				x, c = eq.Args[1], eq.Args[0]
			}
			if x != nil {
				if c1 := s.eqConstIn(x); c1 != nil && c1 != c {
					return neg, true
				}
			}
		}
	}
	nt := Not(t)
	for _, p := range s.pc {
		if p == t {
			return true, true
		}
		if p == nt {
			return false, true
		}
	}
	for _, p := range s.facts {
		if p == t {
			return true, true
		}
		if p == nt {
			return false, true
		}
	}
	return false, false
}

var heapSorts = map[string]Sort{} // declared sort of every heap key ever used

func (s *State) heap(key string, sort Sort) *Term {
	if h, ok := s.heaps[key]; ok {
		return h
	}
	if old, ok := heapSorts[key]; ok && old != sort {
		panic(fmt.Sprintf("heap %s used at sorts %s and %s", key, old, sort))
	}
	heapSorts[key] = sort
	h := Var("H0:"+key, sort)
	s.heaps[key] = h
	return h
}

// Top is the first reference not yet allocated.
func (s *State) Top() *Term { return refTerm(s.base, s.allocN) }

func refTerm(base, k int) *Term {
	return intern(&Term{Op: "ref", Sort: SInt, Val: uint64(k), I1: base})
}

func (s *State) NewRef() *Term {
	r := refTerm(s.base, s.allocN)
	s.allocN++
	return r
}

var baseCount int

// NewBase starts a fresh allocation epoch (after havoc by a loop or a summarised call).
func (s *State) NewBase() {
	oldTop := s.Top()
	baseCount++
	s.base = baseCount
	s.allocN = 0
	s.AssumeFact(IntLe(oldTop, refTerm(s.base, 0))) // the new base is a fresh symbol: its ordering is definitional, not a path fact
}

// Loc is a typed memory location.
type Loc struct {
	Key string  // heap key prefix
	Idx []*Term // [ref] for object fields, [arr, index] for array elements
	T   types.Type
}

func (s *State) heapSortFor(l Loc, cs Sort) Sort {
	if len(l.Idx) == 2 {
		return ArrSort(SInt, ArrSort(BV(64), cs))
	}
	return ArrSort(SInt, cs)
}

// loadHook, when set, is told the heap key of every load (read frames: `never-reads`)
var loadHook func(key string)

func (s *State) LoadLoc(l Loc) Value {
	if loadHook != nil {
		loadHook(l.Key)
	}
	cs := components(l.T)
	ts := make([]*Term, len(cs))
	for i, c := range cs {
		h := s.heap(l.Key+c.suffix, s.heapSortFor(l, c.sort))
		v := Select(h, l.Idx[0])
		if len(l.Idx) == 2 {
			v = Select(v, l.Idx[1])
		}
		ts[i] = v
	}
	return unflatten(l.T, &ts)
}

func (s *State) StoreLoc(l Loc, v Value) {
	cs := components(l.T)
	ts := flatten(l.T, v)
	for i, c := range cs {
		key := l.Key + c.suffix
		h := s.heap(key, s.heapSortFor(l, c.sort))
		if len(l.Idx) == 2 {
			inner := Select(h, l.Idx[0])
			h = Store(h, l.Idx[0], Store(inner, l.Idx[1], ts[i]))
		} else {
			h = Store(h, l.Idx[0], ts[i])
		}
		s.heaps[key] = h
		s.written[key] = true
	}
}

// An array stored by value inside an object (a field of array type, `h [15]byte`) keeps its content in the field's own
// heap component (key "<type>.<field>", indexed by the object reference). A slice or element pointer into it carries the
// array reference embArr(fieldKey, object): every access to "the array of a slice" is redirected to that component, so
// reads and writes through the slice and through the field see the same memory.
func embArr(fieldKey string, obj *Term) *Term { return App("emb:"+fieldKey, SInt, obj) }

func embOf(arr *Term) (string, *Term, bool) {
	if arr != nil && arr.Op == "app" && strings.HasPrefix(arr.Name, "emb:") {
		return strings.TrimPrefix(arr.Name, "emb:"), arr.Args[0], true
	}
	if arr != nil && arr.Op == "ite" {
		for _, a := range arr.Args[1:] {
			if _, _, ok := embOf(a); ok {
				panic(unsupported("a slice that is conditionally a view of an array field"))
			}
		}
	}
	return "", nil, false
}

// array content access (whole inner array of one component)
func (s *State) arrayOf(elem types.Type, c comp, arr *Term) *Term {
	if k, obj, ok := embOf(arr); ok {
		return Select(s.heap(k+c.suffix, ArrSort(SInt, ArrSort(BV(64), c.sort))), obj)
	}
	key := elemKey(elem) + c.suffix
	h := s.heap(key, ArrSort(SInt, ArrSort(BV(64), c.sort)))
	return Select(h, arr)
}

func (s *State) setArrayOf(elem types.Type, c comp, arr *Term, content *Term) {
	if k, obj, ok := embOf(arr); ok {
		key := k + c.suffix
		s.heaps[key] = Store(s.heap(key, ArrSort(SInt, ArrSort(BV(64), c.sort))), obj, content)
		s.written[key] = true
		return
	}
	key := elemKey(elem) + c.suffix
	h := s.heap(key, ArrSort(SInt, ArrSort(BV(64), c.sort)))
	s.heaps[key] = Store(h, arr, content)
	s.written[key] = true
}

func (s *State) heapKeysSorted() []string {
	var ks []string
	for k := range s.heaps {
		ks = append(ks, k)
	}
	sort.Strings(ks)
	return ks
}

func describeValue(v Value) string {
	switch x := v.(type) {
	case *Term:
		return fmt.Sprintf("term#%d:%s", x.ID, x.Sort)
	case *PtrV:
		return fmt.Sprintf("ptr(kind=%d path=%v)", x.Kind, x.Path)
	case *SliceV:
		return "slice"
	case *StrV:
		return "string"
	case *StructV:
		return "struct"
	case *IfaceV:
		return "iface"
	case *TupleV:
		var s []string
		for _, e := range x.Vs {
			s = append(s, describeValue(e))
		}
		return "(" + strings.Join(s, ",") + ")"
	}
	return fmt.Sprintf("%T", v)
}

// plain functions (no captured variables) stored in memory are represented by a constant identifier
var funcIDs = map[interface{}]int64{}
var funcByID = map[int64]interface{}{}

func funcID(fn interface{}) *Term {
	id, ok := funcIDs[fn]
	if !ok {
		id = int64(1000000 + len(funcIDs))
		funcIDs[fn] = id
		funcByID[id] = fn
	}
	return IntConst(id)
}

type ghostWrite struct {
	key string
	ref *Term
}
