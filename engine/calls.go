package main

// Calls: builtins, inlining, contract summaries, interface dispatch, models of library functions.

import (
	"fmt"
	"go/token"
	"go/types"
	"os"
	"sort"
	"strconv"
	"strings"

	"golang.org/x/tools/go/ssa"
)

const maxDepth = 24

func (e *Exec) call(st *State, fr *Frame, self ssa.Value, cc *ssa.CallCommon, pos token.Pos) []Outcome {
	e.dstIsDiscard = false
	if len(cc.Args) > 0 {
		if ld, ok := cc.Args[0].(*ssa.UnOp); ok {
			if g, ok := ld.X.(*ssa.Global); ok && g.Name() == "Discard" && (g.Pkg.Pkg.Path() == "io" || g.Pkg.Pkg.Path() == "io/ioutil") {
				e.dstIsDiscard = true
			}
		}
	}
	var args []Value
	for _, a := range cc.Args {
		args = append(args, e.val(fr, a))
	}
	fv := e.val(fr, cc.Value)
	return e.callValues(st, fr, cc, fv, args, pos)
}

func (e *Exec) callValues(st *State, fr *Frame, cc *ssa.CallCommon, fv Value, args []Value, pos token.Pos) []Outcome {
	if cc.IsInvoke() {
		return e.invoke(st, fr, cc, fv.(*IfaceV), args, pos)
	}
	switch f := fv.(type) {
	case *ssa.Builtin:
		return e.builtin(st, fr, f, cc, args, pos)
	case *FuncV:
		if f.Fn != nil {
			return e.callFunction(st, fr, f.Fn.(*ssa.Function), args, f.Bind, pos)
		}
		return e.callOpaque(st, fr, cc, f, args, pos)
	}
	panic(unsupported("call of " + describeValue(fv)))
}

func one(st *State, rs ...Value) []Outcome { return []Outcome{{st, rs}} }

// ---------- builtins ----------

func (e *Exec) builtin(st *State, fr *Frame, b *ssa.Builtin, cc *ssa.CallCommon, args []Value, pos token.Pos) []Outcome {
	switch b.Name() {
	case "len":
		switch a := args[0].(type) {
		case *SliceV:
			return one(st, a.Len)
		case *StrV:
			return one(st, a.Len)
		case *ArrV:
			return one(st, BVConst(uint64(a.N), 64))
		case *PtrV:
			if a.Kind == PArr {
				return one(st, BVConst(uint64(a.N), 64))
			}
		case *MapV:
			e.note("len(map) is unspecified in the model")
			n := Fresh("maplen", BV(64))
			st.Assume(BVUle(n, BVConst(maxLen, 64)))
			return one(st, n)
		}
	case "cap":
		switch a := args[0].(type) {
		case *SliceV:
			return one(st, a.Cap)
		case *ArrV:
			return one(st, BVConst(uint64(a.N), 64))
		case *PtrV:
			if a.Kind == PArr {
				return one(st, BVConst(uint64(a.N), 64))
			}
		}
	case "append":
		s := args[0].(*SliceV)
		// x.f = append(x.f, ...): growing in place is covered by the permission to assign x.f (see appendSlice)
		e.appendOwner = nil
		if ld, ok := cc.Args[0].(*ssa.UnOp); ok && ld.Op == token.MUL {
			if pv, ok := e.val(fr, ld.X).(*PtrV); ok && (pv.Kind == PObj || pv.Kind == PElem) {
				l := e.locOf(pv)
				e.appendOwner = &l
			}
		}
		switch t := args[1].(type) {
		case *SliceV:
			pre := st.heaps
			_ = pre
			arrs := map[string]*Term{}
			for _, c := range components(t.Elem) {
				arrs[c.suffix] = st.arrayOf(t.Elem, c, t.Arr)
			}
			return appendOutcomes(e.appendSlice(st, fr, s, t.Elem, func(c comp) *Term { return arrs[c.suffix] }, t.Off, t.Len, pos))
		case *StrV:
			return appendOutcomes(e.appendSlice(st, fr, s, s.Elem, func(c comp) *Term { return t.Data }, BVConst(0, 64), t.Len, pos))
		}
	case "copy":
		d := args[0].(*SliceV)
		var n *Term
		switch s := args[1].(type) {
		case *SliceV:
			n = Ite(BVUlt(d.Len, s.Len), d.Len, s.Len)
			e.frameCheck(st, fr, Loc{Key: elemKey(d.Elem), Idx: []*Term{d.Arr}}, pos)
			for _, c := range components(d.Elem) {
				st.setArrayOf(d.Elem, c, d.Arr, ArrayCopy(st.arrayOf(d.Elem, c, d.Arr), d.Off, st.arrayOf(s.Elem, c, s.Arr), s.Off, n))
			}
		case *StrV:
			n = Ite(BVUlt(d.Len, s.Len), d.Len, s.Len)
			e.frameCheck(st, fr, Loc{Key: elemKey(d.Elem), Idx: []*Term{d.Arr}}, pos)
			c := comp{"", BV(8)}
			st.setArrayOf(d.Elem, c, d.Arr, ArrayCopy(st.arrayOf(d.Elem, c, d.Arr), d.Off, s.Data, BVConst(0, 64), n))
		}
		return one(st, n)
	case "delete":
		m := args[0].(*MapV)
		e.sharedAccessMap(st, fr, cc.Args[0], pos)
		e.frameCheck(st, fr, Loc{Key: mapKey(m.T), Idx: []*Term{m.Ref}}, pos)
		e.mapStore(st, m, args[1].(*Term), nil, False)
		return one(st)
	case "print", "println":
		return one(st)
	case "ssa:wrapnilchk":
		return one(st, args[0])
	}
	panic(unsupported("builtin " + b.Name()))
}

// appendSlice implements append(s, t...) where t's component arrays are given by src at offset toff, length tlen.
// The in-place case and the reallocation case are separate paths (simpler terms for the solvers).
func (e *Exec) appendSlice(st *State, fr *Frame, s *SliceV, telem types.Type, src func(c comp) *Term, toff, tlen *Term, pos token.Pos) []appendOut {
	zero := BVConst(0, 64)
	newLen := BVAdd(s.Len, tlen)
	fits := BVUle(newLen, s.Cap)
	if tlen.Op == "bvconst" && tlen.Val == 0 {
		fits = True
	}
	var outs []appendOut
	kn, known := st.knows(fits)
	// in place
	if !known || kn {
		s1 := st
		if !known {
			s1 = st.Clone()
			s1.Assume(fits)
		}
		if !s1.dead {
			// growing in place writes the spare capacity beyond len(s) of the backing array: a write like any other
			// (two appends on aliases of a pre-existing array overwrite each other), so it is frame-checked unless
			// the array was allocated during the call
			if !(tlen.Op == "bvconst" && tlen.Val == 0) {
				e.frameCheckAppend(s1, fr, Loc{Key: elemKey(s.Elem), Idx: []*Term{s.Arr}}, e.appendOwner, pos)
			}
			for _, c := range components(s.Elem) {
				old := s1.arrayOf(s.Elem, c, s.Arr)
				s1.setArrayOf(s.Elem, c, s.Arr, ArrayCopy(old, BVAdd(s.Off, s.Len), src(c), toff, tlen))
			}
			outs = append(outs, appendOut{s1, &SliceV{Arr: s.Arr, Off: s.Off, Len: newLen, Cap: s.Cap, Elem: s.Elem}})
		}
	}
	// reallocation
	if !known || !kn {
		s2 := st
		if !known {
			s2.Assume(Not(fits))
		}
		if !s2.dead {
			capN := Fresh("cap", BV(64))
			s2.Assume(And(BVUle(newLen, capN), BVUle(capN, BVConst(maxLen, 64))))
			fresh := s2.NewRef()
			for _, c := range components(s.Elem) {
				old := s2.arrayOf(s.Elem, c, s.Arr)
				srcArr := src(c)
				grown := ArrayCopy(zeroTerm(old.Sort), zero, old, s.Off, s.Len)
				s2.setArrayOf(s.Elem, c, fresh, ArrayCopy(grown, s.Len, srcArr, toff, tlen))
			}
			outs = append(outs, appendOut{s2, &SliceV{Arr: fresh, Off: zero, Len: newLen, Cap: capN, Elem: s.Elem}})
		}
	}
	return outs
}

type appendOut struct {
	st *State
	v  *SliceV
}

func appendOutcomes(outs []appendOut, extra ...Value) []Outcome {
	var r []Outcome
	for _, o := range outs {
		r = append(r, Outcome{o.st, append([]Value{o.v}, extra...)})
	}
	return r
}

// ---------- function calls ----------

func isModuleFn(fn *ssa.Function) bool {
	p := fn.Package()
	if p == nil && fn.Parent() != nil {
		p = fn.Parent().Package()
	}
	if p == nil {
		// methods of instantiated/wrapper functions: use the receiver's package via object
		if fn.Object() != nil && fn.Object().Pkg() != nil {
			return strings.HasPrefix(fn.Object().Pkg().Path(), "github.com/ossrs/go-oryx-lib")
		}
		return false
	}
	return strings.HasPrefix(p.Pkg.Path(), "github.com/ossrs/go-oryx-lib")
}

func (e *Exec) callFunction(st *State, fr *Frame, fn *ssa.Function, args []Value, bind []Value, pos token.Pos) []Outcome {
	if fr.top && e.topSpec != nil && e.specMode == 0 && e.topSpec.CountCalls[fn.Name()] {
		// ghost call counter (contracts speak about it through ghost_calls("<callee>")); when the callee's first result
		// is a pointer, the one returned by the latest call is kept too (ghost_last_<callee>())
		k := "calls." + fn.Name()
		st.AssumeFact(BVUlt(e.ghGet(st, k, BV(64), IntConst(0)), BVConst(1<<62, 64))) // (a counter of calls made never wraps)
		e.ghSet(st, k, BV(64), IntConst(0), BVAdd(e.ghGet(st, k, BV(64), IntConst(0)), BVConst(1, 64)))
		outs := e.callFunction1(st, fr, fn, args, bind, pos)
		e.recordLastResult(outs, fn.Name())
		return outs
	}
	return e.callFunction1(st, fr, fn, args, bind, pos)
}

// recordLastResult keeps the first result of a counted call in ghost state: a pointer (ghost_last_<callee>()) or a scalar
// (ghost_lastv_<callee>())
func (e *Exec) recordLastResult(outs []Outcome, callee string) {
	for _, o := range outs {
		if len(o.results) == 0 || o.st.dead {
			continue
		}
		if os.Getenv("GOVC_DEBUG") == "9" {
			fmt.Fprintf(os.Stderr, "LASTRESULT %s %s\n", callee, describeValue(o.results[0]))
		}
		switch r := o.results[0].(type) {
		case *PtrV:
			if r.Kind == PObj && len(r.Path) == 0 {
				e.ghSet(o.st, "calls.last."+callee, SInt, IntConst(0), r.Base)
			}
		case *Term:
			if r.Sort.IsBV() {
				e.ghSet(o.st, fmt.Sprintf("calls.lastv%d.%s", r.Sort.Width(), callee), r.Sort, IntConst(0), r)
			}
		}
	}
}

func (e *Exec) callFunction1(st *State, fr *Frame, fn *ssa.Function, args []Value, bind []Value, pos token.Pos) []Outcome {
	name := fn.String()
	// call-site assertions of the function under verification
	if fr.top && e.topSpec != nil && e.specMode == 0 && e.discovery == 0 {
		if len(e.topSpec.AtCall[fn.Name()]) > 0 {
			if e.atCallSeen == nil {
				e.atCallSeen = map[string]bool{}
			}
			e.atCallSeen[fn.Name()] = true
		}
		for _, cl := range e.topSpec.AtCall[fn.Name()] {
			t := e.evalSpec(st, fr, cl, func(n string, t types.Type) (Value, bool) {
				if strings.HasPrefix(n, "arg_") { // the callee's argument of that name
					for i, p := range fn.Params {
						if p.Name() == strings.TrimPrefix(n, "arg_") {
							return args[i], true
						}
					}
					return nil, false
				}
				if len(n) > 3 && strings.HasPrefix(n, "arg") { // arg<N>: the callee's N-th parameter (a method's receiver is arg0)
					if i, err := strconv.Atoi(n[3:]); err == nil && i < len(args) {
						return args[i], true
					}
				}
				return e.topEnvLookup(st, fr, n, t)
			}, true)
			e.obligeNamed(st, fmt.Sprintf("%s#at-call.%s.%s", e.curFn, fn.Name(), strings.Join(cl.Labels, ",")), "at-call", cl.Labels, "", t)
		}
	}
	// primitives usable in spec functions and ghost accessors
	if outs, ok := e.primitive(st, fr, fn, args, pos); ok {
		return outs
	}
	if m, ok := models[name]; ok {
		return m(e, st, fr, fn, args, pos)
	}
	// oldspec_*: a spec function evaluated in the entry state of the call under specification (two-state clauses)
	if strings.HasPrefix(fn.Name(), "oldspec_") && e.oldState != nil && !e.inOldSpec {
		return e.callOldSpec(st, fr, fn, args, pos)
	}
	// a function declared pure is, for its callers and for spec functions alike, an uninterpreted function of its
	// arguments and of the heap components it may read
	if sp := e.specs.ForFn(fn); sp != nil && sp.Pure && fnName(fn) != e.curFn && e.inlineAll == 0 {
		return e.callPure(st, fr, sp, fn, args, pos)
	}
	// contract?
	if sp := e.specs.ForFn(fn); sp != nil && e.specMode == 0 {
		if sp.Trusted || (fnName(fn) != e.curFn && sp.hasContract() && !sp.Inline && e.inlineAll == 0) {
			return e.callContract(st, fr, sp, fn, args, pos)
		}
	}
	if e.tolerant && (fn.Blocks == nil || !isModuleFn(fn)) {
		var rs []Value
		res := fn.Signature.Results()
		for i := 0; i < res.Len(); i++ {
			v := freshValue("init."+fn.Name(), res.At(i).Type())
			e.assumeValid(st, res.At(i).Type(), v)
			if p, ok := v.(*PtrV); ok && p.Kind == PObj {
				st.Assume(Not(Eq(p.Base, IntConst(0))))
			}
			rs = append(rs, v)
		}
		return one(st, rs...)
	}
	if fn.Blocks == nil {
		panic(unsupported("call to function without body or model: " + name))
	}
	if !isModuleFn(fn) && !inlineLib[name] {
		panic(unsupported("call to unmodelled library function: " + name))
	}
	if fr.depth >= maxDepth {
		panic(unsupported("inlining depth exceeded at " + name))
	}
	for _, s := range e.stack {
		if s == name && fn.Parent() == nil {
			cnt := 0
			for _, s2 := range e.stack {
				if s2 == name {
					cnt++
				}
			}
			if cnt >= 2 {
				panic(unsupported("recursive call needs a contract: " + name))
			}
		}
	}
	e.stack = append(e.stack, name)
	defer func() { e.stack = e.stack[:len(e.stack)-1] }()

	nf := &Frame{fn: fn, env: map[ssa.Value]Value{}, depth: fr.depth + 1, loops: map[*ssa.BasicBlock]*loopRec{}, params: map[string]Value{}}
	if len(args) != len(fn.Params) {
		panic(fmt.Sprintf("internal: arity mismatch calling %s: %d vs %d", name, len(args), len(fn.Params)))
	}
	for i, p := range fn.Params {
		nf.env[p] = args[i]
		nf.params[p.Name()] = args[i]
	}
	for i, fv := range fn.FreeVars {
		nf.env[fv] = bind[i]
	}
	pre := st.Clone()
	outs := e.runBlock(st, nf, fn.Blocks[0], nil, 0)
	if os.Getenv("GOVC_DEBUG") == "7" && len(outs) > 6 && e.specMode == 0 {
		fmt.Fprintf(os.Stderr, "OUTCOMES %d from %s\n", len(outs), fnName(fn))
	}
	return e.tryMerge(pre, outs, fn)
}

var inlineLib = map[string]bool{"math.IsNaN": true, "math.IsInf": true}

// tryMerge joins the outcomes of a side-effect-free call into one outcome with ite-merged results.
func (e *Exec) tryMerge(pre *State, outs []Outcome, fn *ssa.Function) (res []Outcome) {
	if len(outs) < 2 {
		return outs
	}
	for _, o := range outs {
		if o.st.base != pre.base || o.st.allocN != pre.allocN {
			return outs
		}
		for k, h := range o.st.heaps {
			if ph, had := pre.heaps[k]; had {
				if ph != h {
					return outs
				}
			} else if h.Op != "var" {
				return outs // (a component first read inside the callee is just its initial variable: no effect)
			}
		}
	}
	sig := fn.Signature.Results()
	defer func() {
		if x := recover(); x != nil {
			if _, ok := x.(Unsupported); ok {
				res = outs
				return
			}
			panic(x)
		}
	}()
	n := len(pre.pc)
	deltas := make([]*Term, len(outs))
	for i, o := range outs {
		if len(o.st.pc) < n {
			return outs
		}
		deltas[i] = And(o.st.pc[n:]...)
	}
	merged := make([]Value, sig.Len())
	for j := 0; j < sig.Len(); j++ {
		t := sig.At(j).Type()
		v := outs[len(outs)-1].results[j]
		for i := len(outs) - 2; i >= 0; i-- {
			v = iteValue(deltas[i], t, outs[i].results[j], v)
		}
		merged[j] = v
	}
	st := pre
	npre := len(pre.facts)
	st.Assume(Or(deltas...))
	for _, o := range outs {
		for _, f := range o.st.facts[npre:] {
			st.AssumeFact(f)
		}
	}
	return []Outcome{{st, merged}}
}

// ---------- interface method calls ----------

func (e *Exec) methodOf(t types.Type, m *types.Func) *ssa.Function {
	ms := e.prog.MethodSets.MethodSet(t)
	sel := ms.Lookup(m.Pkg(), m.Name())
	if sel == nil {
		return nil
	}
	return e.prog.MethodValue(sel)
}

func (e *Exec) invoke(st *State, fr *Frame, cc *ssa.CallCommon, recv *IfaceV, args []Value, pos token.Pos) []Outcome {
	if fr.top && e.topSpec != nil && e.specMode == 0 && e.topSpec.CountCalls[cc.Method.Name()] {
		k := "calls." + cc.Method.Name()
		st.AssumeFact(BVUlt(e.ghGet(st, k, BV(64), IntConst(0)), BVConst(1<<62, 64)))
		e.ghSet(st, k, BV(64), IntConst(0), BVAdd(e.ghGet(st, k, BV(64), IntConst(0)), BVConst(1, 64)))
		outs := e.invoke1(st, fr, cc, recv, args, pos)
		e.recordLastResult(outs, cc.Method.Name())
		return outs
	}
	return e.invoke1(st, fr, cc, recv, args, pos)
}

func (e *Exec) invoke1(st *State, fr *Frame, cc *ssa.CallCommon, recv *IfaceV, args []Value, pos token.Pos) []Outcome {
	e.oblige(st, fr, "safe.nil", pos, Not(Eq(recv.Tid, IntConst(0))))
	if st.dead || recv.Tid.Op == "intconst" && recv.Tid.Val == 0 {
		return nil
	}
	if recv.Tid.Op == "intconst" && recv.Tid.Val != 0 && e.tidTypes[int(recv.Tid.Val)-1] == nil {
		if outs, ok := e.invokeModel(st, fr, cc, recv, args, pos); ok {
			return outs
		}
		panic(unsupported("method call on a foreign library value"))
	}
	if recv.Tid.Op == "intconst" {
		t := e.tidTypes[int(recv.Tid.Val)-1]
		fn := e.methodOf(t, cc.Method)
		if fn == nil {
			panic(unsupported("no method " + cc.Method.Name() + " on " + t.String()))
		}
		rv := e.unbox(st, t, recv)
		return e.callFunction(st, fr, fn, append([]Value{rv}, args...), nil, pos)
	}
	// symbolic dynamic type
	if outs, ok := e.invokeModel(st, fr, cc, recv, args, pos); ok {
		return outs
	}
	if sp := e.specs.ForIface(cc.Value.Type(), cc.Method.Name()); sp != nil {
		return e.callIfaceContract(st, fr, sp, cc, recv, args, pos)
	}
	// closed world: enumerate implementations in the loaded module packages
	impls := e.implementations(cc.Value.Type().Underlying().(*types.Interface))
	if len(impls) == 0 {
		panic(unsupported("dynamic call " + cc.Method.Name() + " on unknown dynamic type"))
	}
	var all []Outcome
	var conds []*Term
	for _, t := range impls {
		c := Eq(recv.Tid, e.tid(t))
		conds = append(conds, c)
	}
	e.note("closed-world dispatch over " + cc.Value.Type().String())
	// every implementation just returns constants (Type(), marker bytes...): one outcome holding a conditional value
	// instead of one path per implementation
	if vals := e.constMethodResults(impls, cc.Method); vals != nil && cc.Signature().Results().Len() == 1 {
		rt := cc.Signature().Results().At(0).Type()
		res := vals[len(vals)-1]
		for i := len(vals) - 2; i >= 0; i-- {
			res = iteValue(conds[i], rt, vals[i], res)
		}
		if !ifaceClosed(cc.Value.Type().Underlying().(*types.Interface)) {
			e.oblige(st, fr, "dispatch.closed", pos, Or(conds...))
		} else {
			st.Assume(Or(conds...))
		}
		return one(st, res)
	}
	for i, t := range impls {
		s2 := st.Clone()
		s2.Assume(conds[i])
		if s2.dead {
			continue
		}
		fn := e.methodOf(t, cc.Method)
		rv := e.unbox(s2, t, &IfaceV{Tid: e.tid(t), Ref: recv.Ref})
		all = append(all, e.callFunction(s2, fr, fn, append([]Value{rv}, args...), nil, pos)...)
	}
	// the interface has an unexported method, so no other implementation can exist; otherwise the value could be
	// of a foreign type: that case is an obligation.
	it := cc.Value.Type().Underlying().(*types.Interface)
	closed := false
	for i := 0; i < it.NumMethods(); i++ {
		if !it.Method(i).Exported() {
			closed = true
		}
	}
	if !closed {
		e.oblige(st, fr, "dispatch.closed", pos, Or(conds...))
	}
	return all
}

func ifaceClosed(it *types.Interface) bool {
	for i := 0; i < it.NumMethods(); i++ {
		if !it.Method(i).Exported() {
			return true
		}
	}
	return false
}

// constMethodResults: when the method of every implementation is a single `return <constant>` that does not look at its
// receiver, the constants (one per implementation); nil otherwise.
func (e *Exec) constMethodResults(impls []types.Type, m *types.Func) []Value {
	var out []Value
	for _, t := range impls {
		fn := e.methodOf(t, m)
		if fn == nil || len(fn.Blocks) != 1 || len(fn.Blocks[0].Instrs) != 1 || e.specs.ForFn(fn) != nil {
			return nil
		}
		r, ok := fn.Blocks[0].Instrs[0].(*ssa.Return)
		if !ok || len(r.Results) != 1 {
			return nil
		}
		k, ok := r.Results[0].(*ssa.Const)
		if !ok {
			return nil
		}
		out = append(out, e.constValue(k))
	}
	return out
}

func (e *Exec) implementations(it *types.Interface) []types.Type {
	var out []types.Type
	for _, p := range e.prog.AllPackages() {
		if !strings.HasPrefix(p.Pkg.Path(), "github.com/ossrs/go-oryx-lib") {
			continue
		}
		for _, m := range p.Members {
			tn, ok := m.(*ssa.Type)
			if !ok {
				continue
			}
			t := tn.Type()
			if _, isI := t.Underlying().(*types.Interface); isI {
				continue
			}
			if types.Implements(t, it) {
				out = append(out, t)
			} else if pt := types.NewPointer(t); types.Implements(pt, it) {
				out = append(out, pt)
			}
		}
	}
	return out
}

func (e *Exec) callOpaque(st *State, fr *Frame, cc *ssa.CallCommon, f *FuncV, args []Value, pos token.Pos) []Outcome {
	if f.Opq != nil && f.Opq.Op == "intconst" {
		if fn, ok := funcByID[int64(f.Opq.Val)]; ok {
			return e.callFunction(st, fr, fn.(*ssa.Function), args, nil, pos)
		}
	}
	if e.topSpec != nil && e.topSpec.PureFuncValues {
		e.note("ASSUMED: function values stored in fields (user-supplied handlers) return arbitrary results and do not modify the state the contracts speak about")
		if f.Opq != nil {
			e.oblige(st, fr, "safe.nilfunc", pos, Not(Eq(f.Opq, IntConst(0))))
		}
		var rs []Value
		res := cc.Signature().Results()
		for i := 0; i < res.Len(); i++ {
			v := freshValue("handler", res.At(i).Type())
			e.assumeValid(st, res.At(i).Type(), v)
			rs = append(rs, v)
		}
		return one(st, rs...)
	}
	panic(unsupported("call through an opaque function value"))
}

// ---------- primitives for spec functions ----------

func (e *Exec) primitive(st *State, fr *Frame, fn *ssa.Function, args []Value, pos token.Pos) ([]Outcome, bool) {
	n := fn.Name()
	if !strings.HasPrefix(n, "prim_") && !strings.HasPrefix(n, "ghost_") {
		return nil, false
	}
	if strings.HasPrefix(n, "prim_mapall2") {
		return one(st, e.primMapAll2(st, fr, args[0].(*MapV), args[1].(*FuncV))), true
	}
	if strings.HasPrefix(n, "prim_mapall") {
		return one(st, e.primMapAll(st, fr, args[0].(*MapV), args[1].(*FuncV))), true
	}
	if strings.HasPrefix(n, "prim_ownedslice") {
		// the slice's backing array is the one of the second slice (typically the entry value of the same field), or
		// was allocated during the call, or there is none
		a, b := args[0].(*SliceV), args[1].(*SliceV)
		return one(st, Or(Eq(a.Cap, BVConst(0, 64)), IntLe(fr.entryTopOr(e), a.Arr), Eq(a.Arr, b.Arr))), true
	}
	if strings.HasPrefix(n, "prim_freshslice") {
		// the slice's backing array was allocated during the call (or there is none)
		a := args[0].(*SliceV)
		return one(st, Or(Eq(a.Cap, BVConst(0, 64)), IntLe(fr.entryTopOr(e), a.Arr))), true
	}
	if strings.HasPrefix(n, "prim_freshobj") {
		// the object was allocated during the call
		p := args[0].(*PtrV)
		return one(st, IntLe(fr.entryTopOr(e), ptrToTerm(p))), true
	}
	switch n {
	case "prim_sameslice":
		a, b := args[0].(*SliceV), args[1].(*SliceV)
		return one(st, And(Eq(a.Len, b.Len), Or(Eq(a.Len, BVConst(0, 64)), And(Eq(a.Arr, b.Arr), Eq(a.Off, b.Off))))), true
	case "prim_freshstream": // prim_freshstream(w): nothing written to w yet, and the transport accepts everything
		wref := streamRef(args[0])
		fam := e.wrFamily(args[0])
		e.ghSet(st, fam+".len", BV(64), wref, BVConst(0, 64))
		e.ghSet(st, fam+".limit", BV(64), wref, BVConst(1<<62, 64))
		e.ghSet(st, "wr.reliable", SBool, wref, True) // ("accepts everything": no transient failures either)
		return one(st), true
	case "prim_feed": // prim_feed(r, b): the unread input of r is exactly the bytes of b, then the terminal error
		rref := streamRef(args[0])
		b := args[1].(*SliceV)
		d := st.arrayOf(b.Elem, comp{"", BV(8)}, b.Arr)
		e.ghSet(st, "rd.data", byteArr, rref, ArrayCopy(zeroTerm(byteArr), BVConst(0, 64), d, b.Off, b.Len))
		e.ghSet(st, "rd.pos", BV(64), rref, BVConst(0, 64))
		e.ghSet(st, "rd.len", BV(64), rref, b.Len)
		return one(st), true
	case "prim_pipe": // prim_pipe(r, w, from): what was written to w from position `from` on is exactly the unread input of r
		rref, wref := streamRef(args[0]), streamRef(args[1])
		from := SignExt(args[2].(*Term), 64)
		w := e.wrF(st, e.wrFamily(args[1]), wref)
		e.ghSet(st, "rd.data", byteArr, rref, w.data)
		e.ghSet(st, "rd.pos", BV(64), rref, from)
		e.ghSet(st, "rd.len", BV(64), rref, w.n)
		return one(st), true
	case "prim_disjoint": // the two slices do not share memory (different backing arrays, or one of them is empty)
		a, b := args[0].(*SliceV), args[1].(*SliceV)
		return one(st, Or(Eq(a.Cap, BVConst(0, 64)), Eq(b.Cap, BVConst(0, 64)), Not(Eq(a.Arr, b.Arr)))), true
	case "prim_eqbytes":
		a, b := args[0].(*SliceV), args[1].(*SliceV)
		return one(st, e.sliceEq(st, a, b)), true
	case "prim_held": // the mutex is held by the current thread of control (ghost lock-set)
		p := args[0].(*PtrV)
		l := e.locOf(p)
		return one(st, st.LoadLoc(Loc{Key: l.Key + ".$held", Idx: l.Idx, T: types.Typ[types.Bool]}).(*Term)), true
	case "prim_havoc": // the slice's elements become arbitrary (symbolic contents of a concrete-length buffer)
		s := args[0].(*SliceV)
		for _, cp := range components(s.Elem) {
			old := st.arrayOf(s.Elem, cp, s.Arr)
			st.setArrayOf(s.Elem, cp, s.Arr, ArrayCopy(old, s.Off, Fresh("havoc", old.Sort), s.Off, s.Len))
		}
		return one(st), true
	case "prim_chanheld":
		return one(st, e.chanHeld(st, args[0].(*Term))), true
	case "prim_forall":
		return one(st, e.primForall(st, fr, args[0].(*Term), args[1].(*FuncV))), true
	case "prim_fresh": // the slice's backing array was allocated during the call
		a := args[0].(*SliceV)
		return one(st, Or(Eq(a.Cap, BVConst(0, 64)), IntLe(fr.entryTopOr(e), a.Arr))), true
	}
	if outs, ok := e.ghostPrimitive(st, fr, fn, args, pos); ok {
		return outs, true
	}
	panic(unsupported("unknown primitive " + n))
}

// primForall: forall 0 <= i < n: f(i), with f a closure evaluated symbolically on a bound variable.
func (e *Exec) primForall(st *State, fr *Frame, n *Term, f *FuncV) *Term {
	if f.Fn == nil {
		panic(unsupported("prim_forall needs a function literal"))
	}
	i := BoundVar("q", BV(64))
	s2 := st.Clone()
	np, nf := len(s2.pc), len(s2.facts)
	saved := e.specDefs
	e.specDefs = nil
	e.specMode++
	savedBase := e.specBase
	e.specBase = np
	outs := e.callFunction(s2, &Frame{depth: fr.depth + 1}, f.Fn.(*ssa.Function), []Value{i}, f.Bind, token.NoPos)
	e.specBase = savedBase
	e.specMode--
	defs := e.specDefs
	e.specDefs = saved
	var alts, facts []*Term
	for _, o := range outs {
		r := o.results[0].(*Term)
		alts = append(alts, And(And(o.st.pc[np:]...), r))
		for _, ft := range o.st.facts[nf:] {
			if ft.hasBound {
				facts = append(facts, ft)
			} else {
				st.AssumeFact(ft)
			}
		}
	}
	R := Or(alts...)
	D := And(defs...)
	rng := And(BVSle(BVConst(0, 64), i), BVSlt(i, n))
	pats := selectPatterns(R, i)
	if len(facts) > 0 {
		// type invariants of the values read inside the body hold for every index: a universally valid fact
		st.AssumeFact(Forall([]*Term{i}, And(facts...), pats...))
	}
	if e.specAssert {
		// proving the clause: every instance must be well defined. (When the clause is assumed, the per-index
		// guard D => R below already makes undefined instances carry no information.)
		// (guarded, like every other definedness condition, by the path on which the quantifier is evaluated)
		n := savedBase
		if n > len(st.pc) {
			n = len(st.pc)
		}
		e.specDefs = append(e.specDefs, Implies(And(st.pc[n:]...), Forall([]*Term{i}, Implies(rng, D), pats...)))
	}
	return Forall([]*Term{i}, Implies(rng, Implies(D, R)), pats...)
}

// primMapAll: for every key present in the map, f(key, value) holds.
func (e *Exec) primMapAll(st *State, fr *Frame, m *MapV, f *FuncV) *Term {
	if f.Fn == nil {
		panic(unsupported("prim_mapall needs a function literal"))
	}
	k := BoundVar("k", mapKeySort(m.T))
	s2 := st.Clone()
	val, present := e.mapLoad(s2, m, k)
	np, nf := len(s2.pc), len(s2.facts)
	saved := e.specDefs
	e.specDefs = nil
	e.specMode++
	savedBase := e.specBase
	e.specBase = np
	outs := e.callFunction(s2, &Frame{depth: fr.depth + 1}, f.Fn.(*ssa.Function), []Value{k, val}, f.Bind, token.NoPos)
	e.specBase = savedBase
	e.specMode--
	defs := e.specDefs
	e.specDefs = saved
	var alts, facts []*Term
	for _, o := range outs {
		r := o.results[0].(*Term)
		alts = append(alts, And(And(o.st.pc[np:]...), r))
		for _, ft := range o.st.facts[nf:] {
			if ft.hasBound {
				facts = append(facts, ft)
			} else {
				st.AssumeFact(ft)
			}
		}
	}
	for _, ft := range s2.facts[len(st.facts):nf] {
		if ft.hasBound {
			facts = append(facts, ft)
		}
	}
	R := Or(alts...)
	D := And(defs...)
	var pats []*Term
	if vt, ok := val.(*PtrV); ok && vt.Kind == PObj {
		pats = []*Term{vt.Base}
	}
	if len(facts) > 0 {
		st.AssumeFact(Forall([]*Term{k}, And(facts...), pats...))
	}
	if e.specAssert {
		n := savedBase
		if n > len(st.pc) {
			n = len(st.pc)
		}
		e.specDefs = append(e.specDefs, Implies(And(st.pc[n:]...), Forall([]*Term{k}, Implies(present, D), pats...)))
	}
	return Forall([]*Term{k}, Implies(present, Implies(D, R)), pats...)
}

// primMapAll2: for every two distinct keys present in the map, f(k1, k2, v1, v2) holds.
func (e *Exec) primMapAll2(st *State, fr *Frame, m *MapV, f *FuncV) *Term {
	k1 := BoundVar("k1", mapKeySort(m.T))
	k2 := BoundVar("k2", mapKeySort(m.T))
	s2 := st.Clone()
	v1, p1 := e.mapLoad(s2, m, k1)
	v2, p2 := e.mapLoad(s2, m, k2)
	np, nf := len(s2.pc), len(s2.facts)
	saved := e.specDefs
	e.specDefs = nil
	e.specMode++
	savedBase := e.specBase
	e.specBase = np
	outs := e.callFunction(s2, &Frame{depth: fr.depth + 1}, f.Fn.(*ssa.Function), []Value{k1, k2, v1, v2}, f.Bind, token.NoPos)
	e.specBase = savedBase
	e.specMode--
	defs := e.specDefs
	e.specDefs = saved
	var alts []*Term
	for _, o := range outs {
		alts = append(alts, And(And(o.st.pc[np:]...), o.results[0].(*Term)))
		for _, ft := range o.st.facts[nf:] {
			if !ft.hasBound {
				st.AssumeFact(ft)
			}
		}
	}
	R := Or(alts...)
	D := And(defs...)
	var pats []*Term
	if a, ok := v1.(*PtrV); ok {
		if b, ok := v2.(*PtrV); ok {
			pats = []*Term{a.Base, b.Base}
		}
	}
	rng := And(p1, p2, Not(Eq(k1, k2)))
	if e.specAssert {
		n := savedBase
		if n > len(st.pc) {
			n = len(st.pc)
		}
		e.specDefs = append(e.specDefs, Implies(And(st.pc[n:]...), Forall([]*Term{k1, k2}, Implies(rng, D), pats...)))
	}
	return Forall([]*Term{k1, k2}, Implies(rng, Implies(D, R)), pats...)
}

// selectPatterns finds a select term whose index is exactly the bound variable (usable as a trigger).
func selectPatterns(t *Term, b *Term) []*Term {
	seen := map[int]bool{}
	var bare, other []*Term
	var walk func(t *Term)
	walk = func(t *Term) {
		if seen[t.ID] || !t.hasBound {
			return
		}
		seen[t.ID] = true
		if t.Op == "select" && simplePattern(t, b) {
			if t.Args[1] == b && !t.Args[0].hasBound {
				bare = append(bare, t) // the position itself is the index: matches whatever term stands at that position
			} else {
				other = append(other, t)
			}
			return
		}
		for _, a := range t.Args {
			walk(a)
		}
	}
	walk(t)
	if len(bare) > 0 {
		if len(bare) > 4 {
			bare = bare[:4]
		}
		return bare
	}
	if len(other) > 0 {
		return other[:1]
	}
	return nil
}

func simplePattern(t, b *Term) bool {
	ok := true
	hasB := false
	var walk func(t *Term)
	walk = func(t *Term) {
		switch t.Op {
		case "select", "var", "bvconst", "intconst", "bvadd", "ref":
		case "bound":
			if t == b {
				hasB = true
			} else {
				ok = false
			}
		default:
			ok = false
		}
		for _, a := range t.Args {
			walk(a)
		}
	}
	walk(t)
	return ok && hasB
}

func (fr *Frame) entryTopOr(e *Exec) *Term {
	if e.freshBase != nil {
		return e.freshBase
	}
	if e.topEntry != nil {
		return e.topEntry
	}
	return refTerm(0, 0)
}

func (e *Exec) sliceEq(st *State, a, b *SliceV) *Term {
	c := comp{"", scalarSort(a.Elem)}
	ad, bd := st.arrayOf(a.Elem, c, a.Arr), st.arrayOf(b.Elem, c, b.Arr)
	if a.Len.Op == "bvconst" && b.Len.Op == "bvconst" && a.Len.Val <= 32 {
		if a.Len.Val != b.Len.Val {
			return False
		}
		var cs []*Term
		for i := uint64(0); i < a.Len.Val; i++ {
			k := BVConst(i, 64)
			cs = append(cs, Eq(Select(ad, BVAdd(a.Off, k)), Select(bd, BVAdd(b.Off, k))))
		}
		return And(cs...)
	}
	return e.seqEq(ad, a.Off, a.Len, bd, b.Off, b.Len)
}

// ---------- models of library functions ----------

type model func(e *Exec, st *State, fr *Frame, fn *ssa.Function, args []Value, pos token.Pos) []Outcome

var models map[string]model

func freshString(name string, st *State) *StrV {
	s := &StrV{Data: Fresh(name+".sdata", ArrSort(BV(64), BV(8))), Len: Fresh(name+".slen", BV(64))}
	st.Assume(BVUle(s.Len, BVConst(maxLen, 64)))
	return s
}

func pureOpaque(name string) model {
	return func(e *Exec, st *State, fr *Frame, fn *ssa.Function, args []Value, pos token.Pos) []Outcome {
		e.note("trusted: " + name + " is pure and returns an unspecified value")
		var rs []Value
		res := fn.Signature.Results()
		for i := 0; i < res.Len(); i++ {
			v := freshValue(name, res.At(i).Type())
			e.assumeValid(st, res.At(i).Type(), v)
			rs = append(rs, v)
		}
		return one(st, rs...)
	}
}

// pureOpaqueStr: a pure function returning an unspecified non-empty string of at most max bytes
func pureOpaqueStr(name string, max uint64) model {
	op := pureOpaque(name)
	return func(e *Exec, st *State, fr *Frame, fn *ssa.Function, args []Value, pos token.Pos) []Outcome {
		outs := op(e, st, fr, fn, args, pos)
		for _, o := range outs {
			s := o.results[0].(*StrV)
			o.st.Assume(And(BVUle(BVConst(1, 64), s.Len), BVUle(s.Len, BVConst(max, 64))))
		}
		e.note(fmt.Sprintf("trusted: %s returns between 1 and %d bytes", name, max))
		return outs
	}
}

// ifaceElems returns the (tid, ref) terms of the first n elements of a []interface{} value.
func ifaceElems(st *State, s *SliceV, n int) []*Term {
	var out []*Term
	cs := components(s.Elem)
	for i := 0; i < n; i++ {
		for _, c := range cs {
			out = append(out, Select(st.arrayOf(s.Elem, c, s.Arr), BVAdd(s.Off, BVConst(uint64(i), 64))))
		}
	}
	return out
}

// formatModel: fmt.Sprintf / fmt.Sprint as a pure function of the format string and the argument values (an
// uninterpreted function per arity): equal inputs give equal text; nothing else is known about the text.
func formatModel(name string, nfixed int) model {
	opaque := pureOpaque(name)
	return func(e *Exec, st *State, fr *Frame, fn *ssa.Function, args []Value, pos token.Pos) []Outcome {
		va, ok := args[len(args)-1].(*SliceV)
		if !ok || va.Len.Op != "bvconst" || va.Len.Val > 6 {
			return opaque(e, st, fr, fn, args, pos)
		}
		e.note("trusted: " + name + " is a pure function of its format and argument values (uninterpreted)")
		var in []*Term
		for i := 0; i < nfixed; i++ {
			s := args[i].(*StrV)
			in = append(in, s.Data, s.Len)
		}
		in = append(in, ifaceElems(st, va, int(va.Len.Val))...)
		tag := fmt.Sprintf("%s/%d", name, va.Len.Val)
		r := &StrV{Data: App(tag+".data", ArrSort(BV(64), BV(8)), in...), Len: App(tag+".len", BV(64), in...)}
		e.assumeValid(st, fn.Signature.Results().At(0).Type(), r)
		return one(st, r)
	}
}

func be(st *State, s *SliceV, n int) *Term {
	d := st.arrayOf(s.Elem, comp{"", BV(8)}, s.Arr)
	var r *Term
	for i := 0; i < n; i++ {
		b := Select(d, BVAdd(s.Off, BVConst(uint64(i), 64)))
		if r == nil {
			r = b
		} else {
			r = Concat(r, b)
		}
	}
	return r
}

func putBE(e *Exec, st *State, fr *Frame, s *SliceV, v *Term, n int, pos token.Pos) {
	e.frameCheck(st, fr, Loc{Key: elemKey(s.Elem), Idx: []*Term{s.Arr}}, pos)
	c := comp{"", BV(8)}
	d := st.arrayOf(s.Elem, c, s.Arr)
	for i := 0; i < n; i++ {
		hi := (n-i)*8 - 1
		d = Store(d, BVAdd(s.Off, BVConst(uint64(i), 64)), Extract(hi, hi-7, v))
	}
	st.setArrayOf(s.Elem, c, s.Arr, d)
}

func init() {
	models = map[string]model{
		"fmt.Sprintf":              formatModel("fmt.Sprintf", 1),
		"fmt.Sprint":               formatModel("fmt.Sprint", 0),
		"fmt.Sprintln":             pureOpaque("fmt.Sprintln"),
		"strconv.Itoa":             pureOpaqueStr("strconv.Itoa", 20), // sign and at most 19 digits
		"strconv.Quote":            pureOpaque("strconv.Quote"),
		"strconv.FormatInt":        pureOpaqueStr("strconv.FormatInt", 65), // sign and at most 64 digits (base 2)
		"strings.Join":             pureOpaque("strings.Join"),
		"unicode/utf8.ValidString": pureOpaque("utf8.ValidString"),
		"os.Getpid": func(e *Exec, st *State, fr *Frame, fn *ssa.Function, args []Value, pos token.Pos) []Outcome {
			e.note("trusted: os.Getpid returns the same unspecified value on every call")
			return one(st, App("os.Getpid", BV(64)))
		},
		"github.com/ossrs/go-oryx-lib/errors.callers": pureOpaque("errors.callers"),
		"bytes.Equal": func(e *Exec, st *State, fr *Frame, fn *ssa.Function, args []Value, pos token.Pos) []Outcome {
			return one(st, e.sliceEq(st, args[0].(*SliceV), args[1].(*SliceV)))
		},
		"math.Float64bits": func(e *Exec, st *State, fr *Frame, fn *ssa.Function, args []Value, pos token.Pos) []Outcome {
			return one(st, args[0])
		},
		"math.Float64frombits": func(e *Exec, st *State, fr *Frame, fn *ssa.Function, args []Value, pos token.Pos) []Outcome {
			return one(st, args[0])
		},
		"errors.New": func(e *Exec, st *State, fr *Frame, fn *ssa.Function, args []Value, pos token.Pos) []Outcome {
			// a fresh error value of the library's private type; identity is what matters
			r := st.NewRef()
			return one(st, &IfaceV{Tid: e.tidNamed("*errors.errorString"), Ref: r})
		},
	}
	for _, w := range []int{16, 32, 64} {
		w := w
		n := w / 8
		models[fmt.Sprintf("(encoding/binary.bigEndian).Uint%d", w)] = func(e *Exec, st *State, fr *Frame, fn *ssa.Function, args []Value, pos token.Pos) []Outcome {
			s := args[1].(*SliceV)
			e.oblige(st, fr, "safe.index", pos, BVUle(BVConst(uint64(n), 64), s.Len))
			return one(st, be(st, s, n))
		}
		models[fmt.Sprintf("(encoding/binary.bigEndian).PutUint%d", w)] = func(e *Exec, st *State, fr *Frame, fn *ssa.Function, args []Value, pos token.Pos) []Outcome {
			s := args[1].(*SliceV)
			e.oblige(st, fr, "safe.index", pos, BVUle(BVConst(uint64(n), 64), s.Len))
			putBE(e, st, fr, s, args[2].(*Term), n, pos)
			return one(st)
		}
	}
	for _, w := range []int{16, 32, 64} {
		n := w / 8
		models[fmt.Sprintf("(encoding/binary.littleEndian).Uint%d", w)] = func(e *Exec, st *State, fr *Frame, fn *ssa.Function, args []Value, pos token.Pos) []Outcome {
			s := args[1].(*SliceV)
			e.oblige(st, fr, "safe.index", pos, BVUle(BVConst(uint64(n), 64), s.Len))
			d := st.arrayOf(s.Elem, comp{"", BV(8)}, s.Arr)
			var r *Term
			for i := n - 1; i >= 0; i-- {
				b := Select(d, BVAdd(s.Off, BVConst(uint64(i), 64)))
				if r == nil {
					r = b
				} else {
					r = Concat(r, b)
				}
			}
			return one(st, r)
		}
		models[fmt.Sprintf("(encoding/binary.littleEndian).PutUint%d", w)] = func(e *Exec, st *State, fr *Frame, fn *ssa.Function, args []Value, pos token.Pos) []Outcome {
			s := args[1].(*SliceV)
			e.oblige(st, fr, "safe.index", pos, BVUle(BVConst(uint64(n), 64), s.Len))
			e.frameCheck(st, fr, Loc{Key: elemKey(s.Elem), Idx: []*Term{s.Arr}}, pos)
			c := comp{"", BV(8)}
			d := st.arrayOf(s.Elem, c, s.Arr)
			for i := 0; i < n; i++ {
				d = Store(d, BVAdd(s.Off, BVConst(uint64(i), 64)), Extract(i*8+7, i*8, args[2].(*Term)))
			}
			st.setArrayOf(s.Elem, c, s.Arr, d)
			return one(st)
		}
	}
	// websocket.maskBytes (unsafe word-at-a-time XOR in the library): TRUSTED model, the function RFC 6455 5.3 defines:
	// octet i of the buffer becomes octet i XOR key[(pos+i) mod 4]; the result is the next key position.
	models["github.com/ossrs/go-oryx-lib/websocket.maskBytes"] = func(e *Exec, st *State, fr *Frame, fn *ssa.Function, args []Value, pos token.Pos) []Outcome {
		e.note("trusted: the octets websocket.maskBytes (unsafe word-at-a-time code) leaves in the buffer are modelled as the RFC 6455 5.3 masking function, not verified; the key position it returns is verified against its body (unsafe memory accesses abstracted)")
		if sp := e.specs.ForFn(fn); sp != nil && !sp.Trusted && e.discovery == 0 && e.specMode == 0 && e.usedSpecs != nil {
			e.usedSpecs[sp] = true // the returned position is a clause of its contract: verified in the dependency closure
		}
		key := args[0].(*ArrV)
		kp := SignExt(args[1].(*Term), 64)
		b := args[2].(*SliceV)
		e.frameCheck(st, fr, Loc{Key: elemKey(b.Elem), Idx: []*Term{b.Arr}}, pos)
		c := comp{"", BV(8)}
		old := st.arrayOf(b.Elem, c, b.Arr)
		i := BoundVar("i", BV(64))
		rel := BVSub(i, b.Off)
		body := Ite(BVUlt(rel, b.Len), BVXor(Select(old, i), Select(key.Data, BVAnd(BVAdd(kp, rel), BVConst(3, 64)))), Select(old, i))
		st.setArrayOf(b.Elem, c, b.Arr, intern(&Term{Op: "lambda", Sort: old.Sort, Args: []*Term{body}, Bound: []*Term{i}}))
		return one(st, BVAnd(BVAdd(kp, b.Len), BVConst(3, 64)))
	}
	// bytes.Buffer: ghost field $buf is the unread content (the library never reads from its buffers before Bytes())
	bufLoc := func(e *Exec, p *PtrV) (Loc, *types.Slice) {
		l := e.locOf(p)
		bt := types.NewSlice(types.Typ[types.Byte])
		return Loc{Key: l.Key + ".$buf", Idx: l.Idx, T: bt}, bt
	}
	models["(*bytes.Buffer).Bytes"] = func(e *Exec, st *State, fr *Frame, fn *ssa.Function, args []Value, pos token.Pos) []Outcome {
		p := args[0].(*PtrV)
		e.nilCheck(st, fr, p, pos)
		l, _ := bufLoc(e, p)
		v := st.LoadLoc(l)
		e.assumeValid(st, l.T, v)
		return one(st, v)
	}
	models["(*bytes.Buffer).Len"] = func(e *Exec, st *State, fr *Frame, fn *ssa.Function, args []Value, pos token.Pos) []Outcome {
		p := args[0].(*PtrV)
		e.nilCheck(st, fr, p, pos)
		l, _ := bufLoc(e, p)
		v := st.LoadLoc(l).(*SliceV)
		e.assumeValid(st, l.T, v)
		return one(st, v.Len)
	}
	models["(*bytes.Buffer).Write"] = func(e *Exec, st *State, fr *Frame, fn *ssa.Function, args []Value, pos token.Pos) []Outcome {
		p := args[0].(*PtrV)
		e.nilCheck(st, fr, p, pos)
		l, _ := bufLoc(e, p)
		cur := st.LoadLoc(l).(*SliceV)
		e.assumeValid(st, l.T, cur)
		src := args[1].(*SliceV)
		srcArr := st.arrayOf(src.Elem, comp{"", BV(8)}, src.Arr)
		e.frameCheck(st, fr, l, pos)
		st.StoreLoc(l, e.bufAppend(st, cur, srcArr, src.Off, src.Len))
		return one(st, src.Len, nilIface())
	}
	models["(*bytes.Buffer).WriteByte"] = func(e *Exec, st *State, fr *Frame, fn *ssa.Function, args []Value, pos token.Pos) []Outcome {
		p := args[0].(*PtrV)
		e.nilCheck(st, fr, p, pos)
		l, bt := bufLoc(e, p)
		cur := st.LoadLoc(l).(*SliceV)
		e.assumeValid(st, l.T, cur)
		one1 := Store(zeroTerm(ArrSort(BV(64), BV(8))), BVConst(0, 64), args[1].(*Term))
		e.frameCheck(st, fr, l, pos)
		_ = bt
		st.StoreLoc(l, e.bufAppend(st, cur, one1, BVConst(0, 64), BVConst(1, 64)))
		return one(st, nilIface())
	}
	// time.Time: abstract instant in nanoseconds
	tm := func(v Value) *Term { return v.(*GhostV).C[0] }
	mkTime := func(t *Term) Value { return &GhostV{Name: "time.Time", C: []*Term{t}} }
	models["(time.Time).Add"] = func(e *Exec, st *State, fr *Frame, fn *ssa.Function, args []Value, pos token.Pos) []Outcome {
		e.note("time.Time is an abstract signed 64-bit nanosecond instant; Add/Sub are assumed not to overflow")
		return one(st, mkTime(BVAdd(tm(args[0]), args[1].(*Term))))
	}
	models["(time.Time).Sub"] = func(e *Exec, st *State, fr *Frame, fn *ssa.Function, args []Value, pos token.Pos) []Outcome {
		e.note("time.Time is an abstract signed 64-bit nanosecond instant; Add/Sub are assumed not to overflow")
		return one(st, BVSub(tm(args[0]), tm(args[1])))
	}
	models["(time.Time).After"] = func(e *Exec, st *State, fr *Frame, fn *ssa.Function, args []Value, pos token.Pos) []Outcome {
		return one(st, BVSlt(tm(args[1]), tm(args[0])))
	}
	models["(time.Time).Before"] = func(e *Exec, st *State, fr *Frame, fn *ssa.Function, args []Value, pos token.Pos) []Outcome {
		return one(st, BVSlt(tm(args[0]), tm(args[1])))
	}
	models["(time.Time).Equal"] = func(e *Exec, st *State, fr *Frame, fn *ssa.Function, args []Value, pos token.Pos) []Outcome {
		return one(st, Eq(tm(args[0]), tm(args[1])))
	}
	models["(time.Time).IsZero"] = func(e *Exec, st *State, fr *Frame, fn *ssa.Function, args []Value, pos token.Pos) []Outcome {
		return one(st, Eq(tm(args[0]), BVConst(0, 64)))
	}
	models["time.Now"] = func(e *Exec, st *State, fr *Frame, fn *ssa.Function, args []Value, pos token.Pos) []Outcome {
		return one(st, mkTime(Fresh("now", BV(64))))
	}
	// sync.Mutex: ghost field $held
	heldLoc := func(e *Exec, p *PtrV) Loc {
		l := e.locOf(p)
		return Loc{Key: l.Key + ".$held", Idx: l.Idx, T: types.Typ[types.Bool]}
	}
	models["(*sync.Mutex).Lock"] = func(e *Exec, st *State, fr *Frame, fn *ssa.Function, args []Value, pos token.Pos) []Outcome {
		p := args[0].(*PtrV)
		e.nilCheck(st, fr, p, pos)
		l := heldLoc(e, p)
		e.oblige(st, fr, "lock.not-reentrant", pos, Not(st.LoadLoc(l).(*Term)))
		st.StoreLoc(l, True)
		e.lockAcquired(st, l)
		if len(e.specs.interf) > 0 && p.Kind == PObj && len(p.Path) > 0 {
			owner := *p
			owner.Path = append([]int(nil), p.Path[:len(p.Path)-1]...)
			_, ot := fieldKey(p.Root, owner.Path)
			if sty, ok := ot.Underlying().(*types.Struct); ok {
				e.interfere(st, &owner, sty)
			}
		}
		return one(st)
	}
	models["(*sync.Mutex).Unlock"] = func(e *Exec, st *State, fr *Frame, fn *ssa.Function, args []Value, pos token.Pos) []Outcome {
		p := args[0].(*PtrV)
		e.nilCheck(st, fr, p, pos)
		l := heldLoc(e, p)
		e.oblige(st, fr, "lock.held-at-unlock", pos, st.LoadLoc(l).(*Term))
		st.StoreLoc(l, False)
		return one(st)
	}
}

// bufAppend: a bytes.Buffer is modelled as a byte sequence; every write yields a new private backing array (whether the
// library grows in place is unobservable through the [0:len) part of slices handed out earlier by Bytes()).
func (e *Exec) bufAppend(st *State, cur *SliceV, src, soff, n *Term) *SliceV {
	e.note("bytes.Buffer is modelled as a byte sequence (writes never alias slices returned earlier by Bytes())")
	zero := BVConst(0, 64)
	c := comp{"", BV(8)}
	old := st.arrayOf(cur.Elem, c, cur.Arr)
	fresh := st.NewRef()
	grown := ArrayCopy(zeroTerm(old.Sort), zero, old, cur.Off, cur.Len)
	st.setArrayOf(cur.Elem, c, fresh, ArrayCopy(grown, cur.Len, src, soff, n))
	newLen := BVAdd(cur.Len, n)
	capN := Fresh("cap", BV(64))
	st.AssumeFact(And(BVUle(newLen, capN), BVUle(capN, BVConst(maxLen, 64))))
	return &SliceV{Arr: fresh, Off: zero, Len: newLen, Cap: capN, Elem: cur.Elem}
}

func (e *Exec) tidNamed(name string) *Term {
	if id, ok := e.tids[name]; ok {
		return IntConst(int64(id))
	}
	id := len(e.tidTypes) + 1
	e.tids[name] = id
	e.tidTypes = append(e.tidTypes, nil)
	return IntConst(int64(id))
}

func nilIface() *IfaceV { return &IfaceV{Tid: IntConst(0), Ref: IntConst(0)} }

// callOldSpec evaluates fn (a pure spec function) in the heap of the entry state; slice results are snapshotted into
// fresh arrays of the current state so that their contents stay the old ones.
func (e *Exec) callOldSpec(st *State, fr *Frame, fn *ssa.Function, args []Value, pos token.Pos) []Outcome {
	old := e.oldState.Clone()
	if os.Getenv("GOVC_DEBUG") == "5" {
		h := old.heaps["A:uint8"]
		fmt.Fprintf(os.Stderr, "OLDSPEC %s in %s: A:uint8=%s discovery=%d\n", fn.Name(), e.curFn, showTerm(h, 1), e.discovery)
	}
	old.pc = append([]*Term(nil), st.pc...)
	old.facts = append([]*Term(nil), st.facts...)
	old.base, old.allocN = st.base, st.allocN
	e.inOldSpec = true
	outs := e.callFunction(old, fr, fn, args, nil, pos)
	e.inOldSpec = false
	var res []Outcome
	for _, o := range outs {
		s2 := st
		if len(outs) > 1 {
			s2 = st.Clone()
		}
		for _, t := range o.st.pc[len(st.pc):] {
			s2.Assume(t)
		}
		for _, t := range o.st.facts[len(st.facts):] {
			s2.AssumeFact(t)
		}
		var rs []Value
		for _, r := range o.results {
			if sl, ok := r.(*SliceV); ok {
				nr := s2.NewRef()
				for _, cp := range components(sl.Elem) {
					s2.setArrayOf(sl.Elem, cp, nr, o.st.arrayOf(sl.Elem, cp, sl.Arr))
				}
				r = &SliceV{Arr: nr, Off: sl.Off, Len: sl.Len, Cap: sl.Cap, Elem: sl.Elem}
			}
			rs = append(rs, r)
		}
		res = append(res, Outcome{s2, rs})
	}
	return res
}

// readsCovers: does one of the declared read prefixes cover the heap key?
func readsCovers(reads []string, key string) bool {
	for _, r := range reads {
		if strings.HasPrefix(key, r) || strings.HasPrefix(key, "A:"+r) || strings.HasPrefix(key, "A:*"+r) || strings.HasPrefix(key, "cell:"+r) || strings.HasPrefix(key, "cell:*"+r) {
			return true
		}
	}
	return false
}

// callPure: the results are uninterpreted functions of the arguments and of the current contents of every heap
// component the function may read. Preconditions are obligations, postconditions assumptions, nothing is modified.
func (e *Exec) callPure(st *State, fr *Frame, sp *FnSpec, fn *ssa.Function, args []Value, pos token.Pos) []Outcome {
	e.note("pure function (an uninterpreted function of its arguments and of the heap components " + strings.Join(sp.Reads, ", ") + "; its reads are checked when it is verified itself): " + sp.Target)
	if e.discovery == 0 && e.specMode == 0 && e.usedSpecs != nil {
		e.usedSpecs[sp] = true
	}
	params := e.paramMap(fn, args)
	cf := &Frame{fn: fn, params: params, entry: st, depth: fr.depth + 1}
	for _, c := range sp.Requires {
		t := e.evalSpec(st, cf, c, func(n string, t types.Type) (Value, bool) { return e.topEnvLookup(st, cf, n, t) }, true)
		e.oblige(st, fr, "callsite.requires."+fn.Name()+"."+c.Name, pos, t)
	}
	var in []*Term
	for i, p := range fn.Params {
		in = append(in, flatten(p.Type(), args[i])...)
	}
	var keys []string
	for k := range heapSorts {
		if !strings.HasPrefix(k, "ghost:") && !strings.HasPrefix(k, "cell:") && !strings.HasSuffix(k, ".$held") && readsCovers(sp.Reads, k) {
			keys = append(keys, k)
		}
	}
	sort.Strings(keys)
	for _, k := range keys {
		in = append(in, st.heap(k, heapSorts[k]))
	}
	res := fn.Signature.Results()
	var rs []Value
	for i := 0; i < res.Len(); i++ {
		cs := components(res.At(i).Type())
		ts := make([]*Term, len(cs))
		for k, c := range cs {
			ts[k] = App(fmt.Sprintf("pure:%s/%d.%d%s", fnName(fn), len(in), i, c.suffix), c.sort, in...)
		}
		v := unflatten(res.At(i).Type(), &ts)
		e.assumeValid(st, res.At(i).Type(), v)
		rs = append(rs, v)
	}
	env := e.resultEnv(st, cf, rs)
	savedOld := e.oldState
	e.oldState = st
	for _, c := range sp.Ensures {
		st.Assume(e.evalSpec(st, cf, c, env, false))
	}
	e.oldState = savedOld
	return one(st, rs...)
}
