package main

// Symbolic execution of go/ssa function bodies into verification conditions.

import (
	"context"
	"fmt"
	"go/constant"
	"go/token"
	"go/types"
	"math"
	"os"
	"sort"
	"strings"
	"time"

	"golang.org/x/tools/go/ssa"
)

type Obligation struct {
	Name   string // stable name: pkg.Func#kind.label
	Kind   string
	Fn     string // function under verification
	Labels []string
	PC     *Term
	Goal   *Term
	Pos    string
	Inputs []NamedValue // symbolic inputs of the function under verification (for replay)
	Entry  *State       // state at function entry (initial heap for model extraction)
	PrePC  *Term        // cover-call: path condition just before the call
}

type NamedValue struct {
	Name string
	T    types.Type
	V    Value
}

type Outcome struct {
	st      *State
	results []Value
}

type Frame struct {
	fn       *ssa.Function
	env      map[ssa.Value]Value
	defers   []func(st *State) []*State
	depth    int
	loops    map[*ssa.BasicBlock]*loopRec // active loop iterations on this path
	spec     *FnSpec                      // contract of fn when fn is the function under verification
	top      bool
	entry    *State // state at entry (for old_ snapshots)
	entryTop *Term
	params   map[string]Value
}

type loopRec struct {
	measure []*Term // decreases measure at iteration start
}

type Exec struct {
	prog        *ssa.Program
	specs       *Contracts
	obls        []*Obligation
	axioms      []*Term            // global definitional assumptions (skolemised definitions)
	defAxioms   map[string][]*Term // definitional axioms keyed by the symbol they define
	discovery   int                // >0: loop modset discovery run, no obligations recorded
	specMode    int                // >0: evaluating a spec function
	specDefs    []*Term            // definedness conditions collected in spec mode
	specAssert  bool               // the spec being evaluated is being proved (not assumed)
	specBase    int                // length of the path condition when the outermost spec evaluation started
	curFn       string
	atCallSeen  map[string]bool  // callees of at-call clauses that the function under verification actually calls
	usedSpecs   map[*FnSpec]bool // contracts assumed at call sites of the functions verified so far
	curLabels   []string
	curInputs   []NamedValue
	curEntry    *State
	notes       map[string]bool // modelling notes / trusted functions actually used
	paths       int
	maxPaths    int
	codeReads   map[string]bool // heap keys loaded by the code of the function under verification (never-reads)
	appendOwner *Loc            // the heap location the slice being appended to was read from (nil: a local value)
	genLimit    time.Duration   // wall-clock limit for generating the conditions of one function (fail-closed when exceeded)
	genStart    time.Time
	genTicks    int
	inInit      bool          // executing package initialisers (globals.go)
	genSlow     time.Duration // time spent so far in functions that ran into genLimit
	genSlowMax  time.Duration // once that much was spent, further functions that get slow are cut after a tenth of genLimit
	tids        map[string]int
	tidTypes    []types.Type
	siteSeen    map[string]int
	globals     map[*ssa.Global]*Term
	initState   *State // heap after package initialisers (immutable globals)
	mutGlobal   map[*ssa.Global]bool
	stack       []string

	disc         *discCtx
	discDepth    int
	topEntry     *Term
	topSpec      *FnSpec
	topAssigns   []assignEntry
	panicAllowed *Term
	returns      int
	specForks    int
	pruner       *Pruner
	pruneQueries int
	pruneCuts    int
	inlineAll    int  // >0: bounded lemma: callees are inlined (contracts ignored), loops unrolled up to this bound
	tolerant     bool // executing package initialisers: unknown calls yield unknown values
	initBase     int
	dstIsDiscard bool // the call being modelled writes to io.Discard / ioutil.Discard
	inOldSpec    bool
	oldState     *State // entry state of the call whose ensures is being evaluated (ghost_old_* accessors)
	freshBase    *Term  // "allocated during the call" threshold while a callee's ensures is being assumed
}

func NewExec(prog *ssa.Program, specs *Contracts) *Exec {
	return &Exec{prog: prog, specs: specs, notes: map[string]bool{}, tids: map[string]int{}, maxPaths: 60000,
		defAxioms: map[string][]*Term{}, siteSeen: map[string]int{}, globals: map[*ssa.Global]*Term{}, mutGlobal: map[*ssa.Global]bool{}}
}

func (e *Exec) note(s string) { e.notes[s] = true }

func (e *Exec) tid(t types.Type) *Term {
	k := t.String()
	if id, ok := e.tids[k]; ok {
		return IntConst(int64(id))
	}
	id := len(e.tidTypes) + 1
	e.tids[k] = id
	e.tidTypes = append(e.tidTypes, t)
	return IntConst(int64(id))
}

func relPos(fn *ssa.Function, pos token.Pos) string {
	if fn == nil || !pos.IsValid() {
		return "?"
	}
	fset := fn.Prog.Fset
	p := fset.Position(pos)
	base := fset.Position(fn.Pos())
	return fmt.Sprintf("+%d", p.Line-base.Line)
}

func fnName(fn *ssa.Function) string {
	if fn == nil {
		return "?"
	}
	s := fn.String()
	s = strings.Replace(s, "github.com/ossrs/go-oryx-lib/", "", -1)
	return s
}

// oblige records a proof obligation `goal` at the current point and then assumes it.
func (e *Exec) oblige(st *State, fr *Frame, kind string, pos token.Pos, goal *Term) {
	if goal == True {
		return
	}
	if e.specMode > 0 {
		n := e.specBase
		if n > len(st.pc) {
			n = len(st.pc)
		}
		e.specDefs = append(e.specDefs, Implies(And(st.pc[n:]...), goal))
		st.Assume(goal)
		return
	}
	if e.discovery > 0 {
		st.Assume(goal)
		return
	}
	if v, ok := st.knows(goal); ok && v {
		return
	}
	site := fnName(fr.fn) + relPos(fr.fn, pos)
	name := e.curFn + "#" + kind
	if fr.fn != nil && fnName(fr.fn) != e.curFn {
		name += "@" + site
	} else {
		name += relPos(fr.fn, pos)
	}
	p := ""
	if fr.fn != nil && pos.IsValid() {
		p = fr.fn.Prog.Fset.Position(pos).String()
	}
	e.obls = append(e.obls, &Obligation{Name: name, Kind: kind, Fn: e.curFn, Labels: e.curLabels, PC: st.PC(), Goal: goal, Pos: p, Inputs: e.curInputs, Entry: e.curEntry})
	st.Assume(goal)
}

// obligeNamed records an obligation with an explicit name (contract clauses).
func (e *Exec) obligeNamed(st *State, name, kind string, labels []string, pos string, goal *Term) {
	if e.discovery > 0 || e.specMode > 0 {
		return
	}
	e.obls = append(e.obls, &Obligation{Name: name, Kind: kind, Fn: e.curFn, Labels: labels, PC: st.PC(), Goal: goal, Pos: pos, Inputs: e.curInputs, Entry: e.curEntry})
}

// ---------- constants ----------

func (e *Exec) constValue(c *ssa.Const) Value {
	t := c.Type()
	if c.Value == nil { // zero value / nil
		return zeroValue(t)
	}
	switch u := t.Underlying().(type) {
	case *types.Basic:
		switch {
		case u.Info()&types.IsBoolean != 0:
			return Bool(constant.BoolVal(c.Value))
		case u.Info()&types.IsString != 0:
			return constString(constant.StringVal(c.Value))
		case u.Info()&types.IsInteger != 0:
			w := scalarSort(t).Width()
			if isSigned(t) {
				return BVConst(uint64(c.Int64()), w)
			}
			return BVConst(c.Uint64(), w)
		case u.Info()&types.IsFloat != 0:
			f := c.Float64()
			if scalarSort(t).Width() == 32 {
				return BVConst(uint64(math.Float32bits(float32(f))), 32)
			}
			return BVConst(math.Float64bits(f), 64)
		}
	}
	panic(unsupported("constant of type " + t.String()))
}

var constStrCache = map[string]*StrV{}

func constString(s string) *StrV {
	if v, ok := constStrCache[s]; ok {
		return v
	}
	d := ConstArray(ArrSort(BV(64), BV(8)), BVConst(0, 8))
	for i := 0; i < len(s); i++ {
		d = Store(d, BVConst(uint64(i), 64), BVConst(uint64(s[i]), 8))
	}
	cp := s
	v := &StrV{Data: d, Len: BVConst(uint64(len(s)), 64), Const: &cp}
	constStrCache[s] = v
	return v
}

// ---------- value lookup ----------

func (e *Exec) val(fr *Frame, v ssa.Value) Value {
	switch x := v.(type) {
	case *ssa.Const:
		return e.constValue(x)
	case *ssa.Global:
		return e.globalPtr(x)
	case *ssa.Function:
		return &FuncV{Fn: x}
	case *ssa.Builtin:
		return x
	}
	if r, ok := fr.env[v]; ok {
		return r
	}
	panic(fmt.Sprintf("internal: no value for %s (%T) in %s", v.Name(), v, fnName(fr.fn)))
}

func (e *Exec) globalPtr(g *ssa.Global) Value {
	r, ok := e.globals[g]
	if !ok {
		r = IntConst(-int64(len(e.globals) + 1))
		e.globals[g] = r
	}
	elem := g.Type().(*types.Pointer).Elem()
	if a, ok := elem.Underlying().(*types.Array); ok {
		return &PtrV{Kind: PArr, Arr: r, Elem: a.Elem(), N: a.Len()}
	}
	return &PtrV{Kind: PObj, Base: r, Root: globalRoot{elem, g}}
}

// globalRoot gives each package-level variable its own heap key.
type globalRoot struct {
	types.Type
	g *ssa.Global
}

// ---------- pointer helpers ----------

func (e *Exec) locOf(p *PtrV) Loc {
	switch p.Kind {
	case PObj:
		if gr, ok := p.Root.(globalRoot); ok {
			k, t := fieldKey(gr.Type, p.Path)
			k = "G:" + gr.g.Pkg.Pkg.Name() + "." + gr.g.Name() + ":" + k
			return Loc{Key: k, Idx: []*Term{p.Base}, T: t}
		}
		k, t := fieldKey(p.Root, p.Path)
		return Loc{Key: k, Idx: []*Term{p.Base}, T: t}
	case PElem:
		if k, obj, ok := embOf(p.Arr); ok {
			return Loc{Key: k, Idx: []*Term{obj, p.Idx}, T: p.Elem}
		}
		return Loc{Key: elemKey(p.Elem), Idx: []*Term{p.Arr, p.Idx}, T: p.Elem}
	}
	panic(unsupported("load/store through pointer to whole array"))
}

func (e *Exec) nilCheck(st *State, fr *Frame, p *PtrV, pos token.Pos) {
	switch p.Kind {
	case PObj:
		e.oblige(st, fr, "safe.nil", pos, Not(Eq(p.Base, IntConst(0))))
	case PArr:
		e.oblige(st, fr, "safe.nil", pos, Not(Eq(p.Arr, IntConst(0))))
	}
}

// opaque struct types of the standard library get ghost components instead of their real fields.
func ghostStruct(t types.Type) (string, bool) {
	if n, ok := t.(*types.Named); ok && n.Obj().Pkg() != nil {
		switch n.Obj().Pkg().Path() + "." + n.Obj().Name() {
		case "bytes.Buffer", "sync.Mutex", "sync.RWMutex", "bytes.Reader", "bufio.Reader", "bufio.Writer", "time.Time", "sync.Once", "log.Logger", "math/rand.Rand", "reflect.Value":
			return n.Obj().Pkg().Path() + "." + n.Obj().Name(), true
		}
	}
	return "", false
}

func (e *Exec) load(st *State, fr *Frame, p *PtrV, pos token.Pos) Value {
	e.nilCheck(st, fr, p, pos)
	e.sharedGlobal(st, fr, p, pos)
	if p.Kind == PArr {
		elemS := scalarSort(p.Elem)
		return &ArrV{Data: st.arrayOf(p.Elem, comp{"", elemS}, p.Arr), N: p.N, Elem: p.Elem}
	}
	l := e.locOf(p)
	v := st.LoadLoc(l)
	// the sentinel errors of package io are non-nil and distinct wherever they are read (code and spec functions)
	if strings.HasPrefix(l.Key, "G:io.EOF:") || strings.HasPrefix(l.Key, "G:io.ErrUnexpectedEOF:") {
		func() {
			defer func() { recover() }()
			e.ioEOF(st, "ErrUnexpectedEOF")
		}()
	}
	if unresolvedLoad(l, v) {
		e.assumeValid(st, l.T, v)
	} else if os.Getenv("GOVC_DEBUG") == "6" && e.discovery == 0 {
		if fl := flatten(l.T, v); len(fl) > 1 {
			fmt.Fprintf(os.Stderr, "RESOLVED-LOAD %s in %s: %s\n", l.Key, e.curFn, showTerm(fl[len(fl)-1], 3))
		}
	}
	return v
}

// unresolvedLoad: every component of the loaded value is a read of the location's own heap VARIABLE (the initial heap
// or a havocked one), not a term that an earlier store of this path put there. Only then is "memory holds well-formed
// values" a fact about symbols that mean the same on every path; a value this path stored itself is well formed by
// construction, and restating its bounds as a path-independent fact would leak this path's bounds checks.
func unresolvedLoad(l Loc, v Value) (ok bool) {
	defer func() {
		if x := recover(); x != nil {
			ok = false
		}
	}()
	cs := components(l.T)
	ts := flatten(l.T, v)
	if len(cs) != len(ts) {
		return false
	}
	for i, c := range cs {
		t := ts[i]
		for t.Op == "select" {
			t = t.Args[0]
		} // (a havoc of exactly this location stores a fresh variable named after it: also a symbol of its own)
		name := t.Name
		if k := strings.LastIndex(name, "!"); k > 0 {
			name = name[:k] // fresh-symbol counter
		}
		if t.Op != "var" || !(strings.HasSuffix(name, ":"+l.Key+c.suffix) || strings.HasSuffix(name, "_"+sanitize(l.Key+c.suffix))) {
			return false
		}
	}
	return true
}

// assumeValid adds the facts that hold for every value read from memory: references are nil or already allocated,
// slice headers are well formed.
// refBound: references read directly from the initial heap existed at function entry; anything else is only known
// to be allocated by now.
func (e *Exec) refBound(st *State, r *Term) *Term {
	t := r
	for t.Op == "select" {
		t = t.Args[0]
	}
	if t.Op == "var" && strings.HasPrefix(t.Name, "H0:") && e.topEntry != nil {
		return e.topEntry
	}
	return st.Top()
}

func (e *Exec) assumeValid(st *State, t types.Type, v Value) {
	switch x := v.(type) {
	case *PtrV:
		if x.Kind == PObj && len(x.Path) == 0 && x.Base.Op != "ref" && x.Base.Op != "intconst" {
			if _, isG := x.Root.(globalRoot); !isG {
				st.AssumeFact(IntLe(IntConst(0), x.Base))
				st.AssumeFact(IntLt(x.Base, e.refBound(st, x.Base)))
			}
		}
		if x.Kind == PArr && x.Arr.Op != "ref" && x.Arr.Op != "intconst" {
			st.AssumeFact(IntLe(IntConst(0), x.Arr))
			st.AssumeFact(IntLt(x.Arr, e.refBound(st, x.Arr)))
		}
	case *SliceV:
		// only a slice made of symbols (an input, a fresh result, a value read from unknown memory) gets the type
		// invariant as a fact; a slice computed from others (s[a:b], append, ...) is well formed by construction on its
		// own path, and stating that as a path-independent fact would leak the path's bounds checks to other paths
		if x.Arr.Op != "ref" && x.Len.Op != "bvconst" && atomic(x.Len) && atomic(x.Cap) && (atomic(x.Off) || x.Off.Op == "bvconst") {
			e.assumeSliceWF(st, x)
		}
	case *StrV:
		if x.Const == nil && x.Len.Op != "bvconst" {
			st.AssumeFact(BVUle(x.Len, BVConst(1<<40, 64)))
		}
	case *IfaceV:
		if x.Ref.Op != "ref" && x.Ref.Op != "intconst" {
			st.AssumeFact(IntLt(x.Ref, e.refBound(st, x.Ref)))
			st.AssumeFact(IntLe(IntConst(0), x.Tid))
		}
	case *MapV:
		if x.Ref.Op != "ref" && x.Ref.Op != "intconst" {
			st.AssumeFact(IntLe(IntConst(0), x.Ref))
			st.AssumeFact(IntLt(x.Ref, e.refBound(st, x.Ref)))
		}
	case *StructV:
		for i, f := range x.F {
			e.assumeValid(st, x.T.Field(i).Type(), f)
		}
	}
}

const maxLen = 1 << 40 // type invariant: no slice is longer than this (runtime maxAlloc is 2^48 bytes)

func (e *Exec) assumeSliceWF(st *State, s *SliceV) {
	st.AssumeFact(IntLe(IntConst(0), s.Arr))
	st.AssumeFact(IntLt(s.Arr, e.refBound(st, s.Arr)))
	st.AssumeFact(BVUle(s.Len, s.Cap))
	st.AssumeFact(BVUle(s.Cap, BVConst(maxLen, 64)))
	st.AssumeFact(BVUle(s.Off, BVConst(maxLen, 64)))
	st.AssumeFact(BVUle(BVAdd(s.Off, s.Cap), BVConst(maxLen, 64))) // the slice lies inside its backing array
	st.AssumeFact(Implies(Eq(s.Arr, IntConst(0)), Eq(s.Cap, BVConst(0, 64))))
}

func (e *Exec) store(st *State, fr *Frame, p *PtrV, v Value, pos token.Pos) {
	e.nilCheck(st, fr, p, pos)
	e.sharedGlobal(st, fr, p, pos)
	if p.Kind == PArr {
		a := v.(*ArrV)
		st.setArrayOf(p.Elem, comp{"", scalarSort(p.Elem)}, p.Arr, a.Data)
		return
	}
	l := e.locOf(p)
	e.frameCheck(st, fr, l, pos)
	if f, ok := v.(*FuncV); ok && f.Opq == nil && f.Fn != nil && len(f.Bind) > 0 {
		// a closure with captured variables stored in memory: from then on an opaque, non-nil function value (what it
		// does when it is called later is unknown to the caller, like any function value loaded from a field)
		o := Fresh("closure", SInt)
		st.Assume(Not(Eq(o, IntConst(0))))
		e.note("a closure stored in memory (" + fmt.Sprint(f.Fn) + ") is an opaque non-nil function value from then on")
		v = &FuncV{Opq: o}
	}
	st.StoreLoc(l, v)
}

// sharedGlobal: a plain (non-atomic) access to a package-level variable declared `shared ... guarded_by atomic`.
func (e *Exec) sharedGlobal(st *State, fr *Frame, p *PtrV, pos token.Pos) {
	if e.discovery > 0 || e.specMode > 0 || e.tolerant || e.specs == nil || p.Kind != PObj {
		return
	}
	gr, ok := p.Root.(globalRoot)
	if !ok {
		return
	}
	for _, sd := range e.specs.shared {
		if sd.Guard == "atomic" && sd.What == gr.g.Name() {
			e.oblige(st, fr, "guarded."+sd.Label, pos, False)
		}
	}
}

// alloc creates a zero-initialised object of type t and returns a pointer to it.
func (e *Exec) alloc(st *State, t types.Type) *PtrV {
	r := st.NewRef()
	if a, ok := t.Underlying().(*types.Array); ok {
		for _, c := range components(a.Elem()) {
			st.setArrayOf(a.Elem(), c, r, zeroTerm(ArrSort(BV(64), c.sort)))
		}
		return &PtrV{Kind: PArr, Arr: r, Elem: a.Elem(), N: a.Len()}
	}
	p := &PtrV{Kind: PObj, Base: r, Root: t}
	e.zeroObject(st, p)
	if e.specs != nil {
		for _, g := range e.specs.ghostWriters {
			if typeKey(t) == g {
				e.ghSet(st, "gw:"+g+".len", BV(64), r, BVConst(0, 64))
			}
		}
	}
	return p
}

func (e *Exec) zeroObject(st *State, p *PtrV) {
	l := e.locOf(p)
	st.StoreLoc(l, zeroValueG(l.T))
}

// zeroValueG is zeroValue with ghost components for opaque library structs.
func zeroValueG(t types.Type) Value { return zeroValue(t) }

// ---------- integer helpers ----------

// toWidth converts term x of Go type from to width w honoring signedness.
func toWidth(x *Term, from types.Type, w int) *Term {
	if isSigned(from) {
		return SignExt(x, w)
	}
	return ZeroExt(x, w)
}

func (e *Exec) idx64(fr *Frame, v ssa.Value) *Term {
	t := e.val(fr, v).(*Term)
	return toWidth(t, v.Type(), 64)
}

// ---------- running ----------

type pathLimit struct{}

var forkStats map[string]int
var forkTotal int

var pruneAfter = 3000 // forks per function before the incremental solver is consulted at branches

func showTerm(t *Term, d int) string {
	switch t.Op {
	case "var", "bound":
		return t.Name
	case "bvconst":
		return fmt.Sprintf("%#x", t.Val)
	case "intconst":
		return fmt.Sprintf("%d", int64(t.Val))
	case "ref":
		return fmt.Sprintf("ref(%d,%d)", t.I1, t.Val)
	case "true", "false":
		return t.Op
	}
	if d == 0 {
		return "..."
	}
	s := "(" + t.Op
	if t.Op == "app" {
		s += ":" + t.Name
	}
	for _, a := range t.Args {
		s += " " + showTerm(a, d-1)
	}
	return s + ")"
}

func (e *Exec) runBlock(st *State, fr *Frame, b *ssa.BasicBlock, prev *ssa.BasicBlock, i0 int) []Outcome {
	if st.dead {
		return nil
	}
	if i0 == 0 {
		// loop header handling and phi nodes
		if cont, done := e.enterBlock(st, fr, b, prev); done {
			return cont
		}
	}
	for i := i0; i < len(b.Instrs); i++ {
		if st.dead {
			return nil
		}
		ins := b.Instrs[i]
		lastIns = ins
		switch x := ins.(type) {
		case *ssa.Phi:
			continue // handled in enterBlock
		case *ssa.If:
			e.checkGenBudget()
			c := e.val(fr, x.Cond).(*Term)
			if v, ok := st.knows(c); ok {
				if v {
					return e.runBlock(st, fr, b.Succs[0], b, 0)
				}
				return e.runBlock(st, fr, b.Succs[1], b, 0)
			}
			if e.paths >= pruneAfter && e.discovery == 0 && e.specMode == 0 {
				if e.pruner == nil {
					e.pruner = NewPruner()
				}
				base := append(append([]*Term{}, st.pc...), st.facts...)
				if e.pruner.Infeasible(append(base, c)) {
					st.Assume(Not(c))
					return e.runBlock(st, fr, b.Succs[1], b, 0)
				}
				if e.pruner.Infeasible(append(base, Not(c))) {
					st.Assume(c)
					return e.runBlock(st, fr, b.Succs[0], b, 0)
				}
			}
			if e.specMode == 0 {
				e.paths++
			} else {
				e.specForks++
				if e.specForks > 40*e.maxPaths {
					panic(unsupported("spec evaluation fork limit exceeded in " + e.curFn))
				}
			}
			if forkStats != nil {
				if k := fnName(fr.fn) + relPos(fr.fn, x.Pos()); forkStats[k+" "+fr.fn.Prog.Fset.Position(x.Cond.Pos()).String()] == 0 {
					fmt.Fprintf(os.Stderr, "FIRSTFORK %s %s\n   %s\n", k, fr.fn.Prog.Fset.Position(x.Cond.Pos()), showTerm(c, 7))
				}
				forkStats[fnName(fr.fn)+relPos(fr.fn, x.Pos())+" "+fr.fn.Prog.Fset.Position(x.Cond.Pos()).String()]++
				forkTotal++
				if forkTotal%5000 == 0 {
					type kv struct {
						k string
						v int
					}
					var all []kv
					for k, v := range forkStats {
						all = append(all, kv{k, v})
					}
					sort.Slice(all, func(i, j int) bool { return all[i].v > all[j].v })
					for i := 0; i < 6 && i < len(all); i++ {
						fmt.Fprintf(os.Stderr, "FORKS %d %s\n", all[i].v, all[i].k)
					}
				}
			}
			if e.paths > e.maxPaths {
				panic(unsupported(fmt.Sprintf("path limit %d exceeded in %s", e.maxPaths, e.curFn)))
			}
			st2 := st.Clone()
			fr2 := fr.clone()
			st.Assume(c)
			st2.Assume(Not(c))
			out := e.runBranch(st, fr, b.Succs[0], b)
			out = append(out, e.runBranch(st2, fr2, b.Succs[1], b)...)
			return out
		case *ssa.Jump:
			return e.runBlock(st, fr, b.Succs[0], b, 0)
		case *ssa.Return:
			var rs []Value
			for _, r := range x.Results {
				rs = append(rs, e.val(fr, r))
			}
			return []Outcome{{st, rs}}
		case *ssa.Panic:
			if e.panicAllowed != nil && e.specMode == 0 {
				e.oblige(st, fr, "panics_iff.panics-only-if", x.Pos(), e.panicAllowed)
			} else {
				e.oblige(st, fr, "safe.panic", x.Pos(), False)
			}
			return nil
		case *ssa.Call:
			outs := e.call(st, fr, x, x.Common(), x.Pos())
			if len(outs) == 1 {
				fr.env[x] = tupleOrSingle(outs[0].results)
				st = outs[0].st
				continue
			}
			var all []Outcome
			for _, o := range outs {
				f2 := fr.clone()
				f2.env[x] = tupleOrSingle(o.results)
				all = append(all, e.runBlock(o.st, f2, b, prev, i+1)...)
			}
			return all
		case *ssa.Defer:
			call := x.Common()
			cc := *call
			var args []Value
			for _, a := range cc.Args {
				args = append(args, e.val(fr, a))
			}
			var fv Value
			if !cc.IsInvoke() {
				fv = e.val(fr, cc.Value)
			} else {
				fv = e.val(fr, cc.Value)
			}
			pos := x.Pos()
			frr := fr
			fr.defers = append(fr.defers, func(s *State) []*State {
				outs := e.callValues(s, frr, &cc, fv, args, pos)
				var r []*State
				for _, o := range outs {
					r = append(r, o.st)
				}
				return r
			})
			continue
		case *ssa.RunDefers:
			ds := fr.defers
			fr.defers = nil
			states := []*State{st}
			for k := len(ds) - 1; k >= 0; k-- {
				var next []*State
				for _, s := range states {
					next = append(next, ds[k](s)...)
				}
				states = next
			}
			if len(states) == 1 {
				st = states[0]
				continue
			}
			var all []Outcome
			for _, s := range states {
				all = append(all, e.runBlock(s, fr.clone(), b, prev, i+1)...)
			}
			return all
		case *ssa.Go:
			panic(unsupported("go statement"))
		case *ssa.Select:
			outs := e.selectInstr(st, fr, x)
			if len(outs) == 1 {
				fr.env[x] = tupleOrSingle(outs[0].results)
				st = outs[0].st
				continue
			}
			var all []Outcome
			for _, o := range outs {
				f2 := fr.clone()
				f2.env[x] = tupleOrSingle(o.results)
				all = append(all, e.runBlock(o.st, f2, b, prev, i+1)...)
			}
			return all
		default:
			e.instr(st, fr, ins)
		}
	}
	panic("internal: block without terminator")
}

func tupleOrSingle(rs []Value) Value {
	if len(rs) == 1 {
		return rs[0]
	}
	return &TupleV{Vs: rs}
}

func (fr *Frame) clone() *Frame {
	n := *fr
	n.env = make(map[ssa.Value]Value, len(fr.env))
	for k, v := range fr.env {
		n.env[k] = v
	}
	n.defers = append([]func(*State) []*State(nil), fr.defers...)
	n.loops = make(map[*ssa.BasicBlock]*loopRec, len(fr.loops))
	for k, v := range fr.loops {
		n.loops[k] = v
	}
	return &n
}

// ---------- non-control instructions ----------

// checkGenBudget: generating the conditions of one function has a wall-clock limit (fail-closed when exceeded); once
// functions that hit it have used up genSlowMax in total, the others get a tenth of the limit.
func (e *Exec) checkGenBudget() {
	if e.genLimit <= 0 || e.genStart.IsZero() || e.inInit {
		return // (package initialisers are executed outside any function's budget)
	}
	e.genTicks++
	if e.genTicks%8 != 0 {
		return
	}
	lim := e.genLimit
	if e.genSlowMax > 0 && e.genSlow >= e.genSlowMax {
		lim = e.genLimit / 10
	}
	if time.Since(e.genStart) > lim {
		e.genSlow += time.Since(e.genStart)
		panic(unsupported(fmt.Sprintf("condition generation for %s exceeded %v (%d paths, %d specification forks): too many paths to decide", e.curFn, lim, e.paths, e.specForks)))
	}
}

func (e *Exec) instr(st *State, fr *Frame, ins ssa.Instruction) {
	switch x := ins.(type) {
	case *ssa.DebugRef:
		return
	case *ssa.Alloc:
		t := x.Type().(*types.Pointer).Elem()
		fr.env[x] = e.alloc(st, t)
	case *ssa.UnOp:
		fr.env[x] = e.unop(st, fr, x)
	case *ssa.BinOp:
		fr.env[x] = e.binop(st, fr, x.Op, e.val(fr, x.X), e.val(fr, x.Y), x.X.Type(), x.Y.Type(), x.Pos())
	case *ssa.Store:
		if _, ok := e.val(fr, x.Addr).(*UnsafeV); ok {
			e.unsafeStore(st, fr, x.Pos())
			return
		}
		p := e.val(fr, x.Addr).(*PtrV)
		if sv, ok := e.val(fr, x.Val).(*SliceV); ok {
			if _, _, emb := embOf(sv.Arr); emb {
				panic(unsupported("a slice of an array field is stored in memory (such views are only tracked in registers)"))
			}
		}
		e.guaranteeAt(st, fr, x, p, e.val(fr, x.Val))
		e.store(st, fr, p, e.val(fr, x.Val), x.Pos())
	case *ssa.FieldAddr:
		p := e.val(fr, x.X).(*PtrV)
		e.nilCheck(st, fr, p, x.Pos())
		if p.Kind != PObj {
			panic(unsupported("FieldAddr on non-object pointer"))
		}
		np := *p
		np.Path = append(append([]int(nil), p.Path...), x.Field)
		fr.env[x] = &np
	case *ssa.Field:
		s := e.val(fr, x.X).(*StructV)
		fr.env[x] = s.F[x.Field]
	case *ssa.IndexAddr:
		fr.env[x] = e.indexAddr(st, fr, x)
	case *ssa.Index:
		i := e.idx64(fr, x.Index)
		switch a := e.val(fr, x.X).(type) {
		case *ArrV:
			e.oblige(st, fr, "safe.index", x.Pos(), BVUlt(i, BVConst(uint64(a.N), 64)))
			fr.env[x] = Select(a.Data, i)
		case *StrV:
			e.oblige(st, fr, "safe.index", x.Pos(), BVUlt(i, a.Len))
			fr.env[x] = Select(a.Data, i)
		default:
			panic(unsupported("Index on " + describeValue(a)))
		}
	case *ssa.Slice:
		fr.env[x] = e.sliceOp(st, fr, x)
	case *ssa.MakeSlice:
		fr.env[x] = e.makeSlice(st, fr, x)
	case *ssa.Convert:
		fr.env[x] = e.convert(st, fr, e.val(fr, x.X), x.X.Type(), x.Type(), x.Pos())
	case *ssa.ChangeType:
		fr.env[x] = e.changeType(e.val(fr, x.X), x.Type())
	case *ssa.MakeInterface:
		fr.env[x] = e.makeInterface(st, x.X.Type(), e.val(fr, x.X))
	case *ssa.ChangeInterface:
		fr.env[x] = e.val(fr, x.X)
	case *ssa.TypeAssert:
		fr.env[x] = e.typeAssert(st, fr, x)
	case *ssa.Extract:
		fr.env[x] = e.val(fr, x.Tuple).(*TupleV).Vs[x.Index]
	case *ssa.MakeClosure:
		var b []Value
		for _, v := range x.Bindings {
			b = append(b, e.val(fr, v))
		}
		fr.env[x] = &FuncV{Fn: x.Fn.(*ssa.Function), Bind: b}
	case *ssa.MakeMap:
		r := st.NewRef()
		mt := x.Type().Underlying().(*types.Map)
		m := &MapV{Ref: r, T: mt}
		pk := mapKey(mt) + ".present"
		h := st.heap(pk, ArrSort(SInt, ArrSort(mapKeySort(mt), SBool)))
		st.heaps[pk] = Store(h, r, ConstArray(ArrSort(mapKeySort(mt), SBool), False))
		st.written[pk] = true
		fr.env[x] = m
	case *ssa.Lookup:
		fr.env[x] = e.lookup(st, fr, x)
	case *ssa.MapUpdate:
		e.mapUpdate(st, fr, x)
	case *ssa.Send:
		e.chanSend(st, fr, x)
	case *ssa.MakeChan:
		// a 1-slot channel used as a mutex: created empty, i.e. "held" by its creator until the token is put in
		if sz, ok := x.Size.(*ssa.Const); !ok || sz.Value == nil || sz.Int64() != 1 {
			panic(unsupported("make(chan) other than a 1-slot lock channel"))
		}
		r := st.NewRef()
		e.ghSet(st, "chanheld", SBool, r, True)
		fr.env[x] = r
	case *ssa.Range, *ssa.Next:
		panic(unsupported("range over map or string"))
	default:
		panic(unsupported(fmt.Sprintf("instruction %T", ins)))
	}
}

func (e *Exec) unop(st *State, fr *Frame, x *ssa.UnOp) Value {
	v := e.val(fr, x.X)
	switch x.Op {
	case token.MUL: // load
		if _, ok := v.(*UnsafeV); ok { // a load through an unsafe pointer: an arbitrary value of the type
			if len(components(x.Type())) != 1 {
				panic(unsupported("load of a non-scalar through an unsafe pointer"))
			}
			return freshValue("unsafe.load", x.Type())
		}
		p := v.(*PtrV)
		r := e.load(st, fr, p, x.Pos())
		e.sharedAccess(st, fr, p, x.Pos())
		return r
	case token.NOT:
		return Not(v.(*Term))
	case token.SUB:
		if isFloat(x.Type()) {
			return e.fpNeg(v.(*Term), x.Type())
		}
		return BVNeg(v.(*Term))
	case token.XOR:
		return BVNot(v.(*Term))
	case token.ARROW:
		return e.chanRecv(st, fr, x, v)
	}
	panic(unsupported("unary op " + x.Op.String()))
}

func (e *Exec) indexAddr(st *State, fr *Frame, x *ssa.IndexAddr) Value {
	i := e.idx64(fr, x.Index)
	switch a := e.val(fr, x.X).(type) {
	case *SliceV:
		e.oblige(st, fr, "safe.index", x.Pos(), BVUlt(i, a.Len))
		return &PtrV{Kind: PElem, Arr: a.Arr, Idx: BVAdd(a.Off, i), Elem: a.Elem}
	case *PtrV:
		if a.Kind == PArr {
			e.nilCheck(st, fr, a, x.Pos())
			e.oblige(st, fr, "safe.index", x.Pos(), BVUlt(i, BVConst(uint64(a.N), 64)))
			return &PtrV{Kind: PElem, Arr: a.Arr, Idx: i, Elem: a.Elem}
		}
		if a.Kind == PObj {
			// pointer to an array stored inside an object (struct field or cell): an element of the field's own component
			l := e.locOf(a)
			at, ok := l.T.Underlying().(*types.Array)
			if !ok || len(components(at.Elem())) != 1 {
				panic(unsupported("indexing a non-scalar array embedded in a struct through a pointer"))
			}
			e.nilCheck(st, fr, a, x.Pos())
			e.oblige(st, fr, "safe.index", x.Pos(), BVUlt(i, BVConst(uint64(at.Len()), 64)))
			return &PtrV{Kind: PElem, Arr: embArr(l.Key+".adata", l.Idx[0]), Idx: i, Elem: at.Elem()}
		}
	}
	panic(unsupported("IndexAddr on " + describeValue(e.val(fr, x.X))))
}

func (e *Exec) sliceOp(st *State, fr *Frame, x *ssa.Slice) Value {
	get := func(v ssa.Value, def *Term) *Term {
		if v == nil {
			return def
		}
		return e.idx64(fr, v)
	}
	zero := BVConst(0, 64)
	switch a := e.val(fr, x.X).(type) {
	case *SliceV:
		lo := get(x.Low, zero)
		hi := get(x.High, a.Len)
		mx := get(x.Max, a.Cap)
		e.oblige(st, fr, "safe.slice", x.Pos(), And(BVUle(lo, hi), BVUle(hi, mx), BVUle(mx, a.Cap)))
		return &SliceV{Arr: a.Arr, Off: BVAdd(a.Off, lo), Len: BVSub(hi, lo), Cap: BVSub(mx, lo), Elem: a.Elem}
	case *StrV:
		lo := get(x.Low, zero)
		hi := get(x.High, a.Len)
		e.oblige(st, fr, "safe.slice", x.Pos(), And(BVUle(lo, hi), BVUle(hi, a.Len)))
		if lo.Op == "bvconst" && lo.Val == 0 {
			return &StrV{Data: a.Data, Len: hi}
		}
		n := BVSub(hi, lo)
		return &StrV{Data: ArrayCopy(zeroTerm(a.Data.Sort), zero, a.Data, lo, n), Len: n}
	case *PtrV:
		if a.Kind == PArr {
			e.nilCheck(st, fr, a, x.Pos())
			n := BVConst(uint64(a.N), 64)
			lo := get(x.Low, zero)
			hi := get(x.High, n)
			mx := get(x.Max, n)
			e.oblige(st, fr, "safe.slice", x.Pos(), And(BVUle(lo, hi), BVUle(hi, mx), BVUle(mx, n)))
			return &SliceV{Arr: a.Arr, Off: lo, Len: BVSub(hi, lo), Cap: BVSub(mx, lo), Elem: a.Elem}
		}
		if a.Kind == PObj {
			// array stored by value inside an object: give it a stable array identity derived from the object
			return e.sliceEmbeddedArray(st, fr, a, x, get)
		}
	}
	panic(unsupported("Slice on " + describeValue(e.val(fr, x.X))))
}

func elemSize(t types.Type) uint64 {
	switch u := t.Underlying().(type) {
	case *types.Basic:
		if isString(t) {
			return 16
		}
		if u.Kind() == types.Bool {
			return 1
		}
		return uint64(scalarSort(t).Width() / 8)
	case *types.Slice:
		return 24
	case *types.Interface:
		return 16
	case *types.Struct:
		var s uint64
		for i := 0; i < u.NumFields(); i++ {
			s += elemSize(u.Field(i).Type())
		}
		if s == 0 {
			s = 1
		}
		return s
	case *types.Array:
		return uint64(u.Len()) * elemSize(u.Elem())
	}
	return 8
}

const maxAlloc = uint64(1) << 47

func (e *Exec) makeSlice(st *State, fr *Frame, x *ssa.MakeSlice) Value {
	elem := x.Type().Underlying().(*types.Slice).Elem()
	l := e.idx64(fr, x.Len)
	c := e.idx64(fr, x.Cap)
	lim := BVConst(maxAlloc/elemSize(elem), 64)
	e.oblige(st, fr, "safe.make", x.Pos(), And(BVUle(l, c), BVUle(c, lim)))
	return e.newSlice(st, elem, l, c)
}

func (e *Exec) newSlice(st *State, elem types.Type, l, c *Term) *SliceV {
	r := st.NewRef()
	for _, cp := range components(elem) {
		st.setArrayOf(elem, cp, r, zeroTerm(ArrSort(BV(64), cp.sort)))
	}
	return &SliceV{Arr: r, Off: BVConst(0, 64), Len: l, Cap: c, Elem: elem}
}

func (e *Exec) changeType(v Value, to types.Type) Value {
	switch x := v.(type) {
	case *SliceV:
		n := *x
		n.Elem = to.Underlying().(*types.Slice).Elem()
		return &n
	case *PtrV:
		if x.Kind == PObj && len(x.Path) == 0 {
			n := *x
			n.Root = to.Underlying().(*types.Pointer).Elem()
			return &n
		}
		return x
	case *StructV:
		n := *x
		n.T = to.Underlying().(*types.Struct)
		return &n
	case *MapV:
		n := *x
		n.T = to.Underlying().(*types.Map)
		return &n
	}
	return v
}

func (e *Exec) convert(st *State, fr *Frame, v Value, from, to types.Type, pos token.Pos) Value {
	fu, tu := from.Underlying(), to.Underlying()
	// string <-> []byte
	if isString(to) {
		switch s := v.(type) {
		case *SliceV:
			if scalarSort(s.Elem).Width() != 8 {
				panic(unsupported("conversion of " + s.Elem.String() + " slice to a string (UTF-8 encoding is not modelled)"))
			}
			data := st.arrayOf(s.Elem, comp{"", BV(8)}, s.Arr)
			if !(s.Off.Op == "bvconst" && s.Off.Val == 0) {
				data = ArrayCopy(zeroTerm(ArrSort(BV(64), BV(8))), BVConst(0, 64), data, s.Off, s.Len)
			}
			return &StrV{Data: data, Len: s.Len}
		case *StrV:
			return s
		case *Term: // string(rune)
			panic(unsupported("string(rune)"))
		}
	}
	if sl, ok := tu.(*types.Slice); ok {
		if s, ok := v.(*StrV); ok {
			if scalarSort(sl.Elem()).Width() != 8 {
				panic(unsupported("conversion of a string to " + sl.String() + " (UTF-8 decoding is not modelled)"))
			}
			c := Fresh("cap", BV(64))
			st.Assume(BVUle(s.Len, c))
			st.Assume(BVUle(c, BVConst(maxLen, 64)))
			r := e.newSlice(st, sl.Elem(), s.Len, c)
			st.setArrayOf(sl.Elem(), comp{"", BV(8)}, r.Arr, s.Data)
			return r
		}
		return v
	}
	// unsafe conversions: the address is abstracted away (an arbitrary number, an opaque pointer)
	isUP := func(t types.Type) bool { b, ok := t.(*types.Basic); return ok && b.Kind() == types.UnsafePointer }
	if _, ok := fu.(*types.Pointer); ok {
		if isUP(tu) {
			e.note("unsafe: a pointer is converted to unsafe.Pointer (its address is abstracted to an arbitrary number) in " + e.curFn)
			return &UnsafeV{}
		}
		panic(unsupported("pointer conversion"))
	}
	if _, ok := tu.(*types.Pointer); ok {
		if _, isU := v.(*UnsafeV); isU && isUP(fu) {
			return v
		}
		panic(unsupported("pointer conversion"))
	}
	if isUP(fu) && isInteger(to) {
		if _, isU := v.(*UnsafeV); isU {
			return Fresh("unsafe.addr", scalarSort(to))
		}
	}
	if isUP(tu) && isInteger(from) {
		return &UnsafeV{}
	}
	t := v.(*Term)
	switch {
	case isInteger(from) && isInteger(to):
		return toWidth(t, from, scalarSort(to).Width())
	case isInteger(from) && isFloat(to):
		return e.intToFloat(t, from, to)
	case isFloat(from) && isInteger(to):
		return e.floatToInt(st, t, from, to)
	case isFloat(from) && isFloat(to):
		if scalarSort(from) == scalarSort(to) {
			return t
		}
		panic(unsupported("float32<->float64 conversion"))
	}
	panic(unsupported(fmt.Sprintf("convert %s -> %s", from, to)))
}

// ---------- interfaces ----------

func (e *Exec) makeInterface(st *State, t types.Type, v Value) Value {
	tid := e.tid(t)
	if _, ok := t.Underlying().(*types.Pointer); ok {
		p := v.(*PtrV)
		return &IfaceV{Tid: tid, Ref: ptrToTerm(p)}
	}
	// boxed value: the box reference is a function of the boxed value (equal values give equal interface values);
	// boxes of different values are not assumed distinct
	var r *Term
	func() {
		defer func() {
			if x := recover(); x != nil {
				if _, ok := x.(Unsupported); !ok {
					panic(x)
				}
				r = nil
			}
		}()
		fl := flatten(t, v)
		if len(fl) > 0 {
			r = App("box:"+typeKey(t), SInt, fl...)
			st.AssumeFact(IntLt(r, IntConst(-1000000000))) // boxes live apart from objects and package-level variables
		}
	}()
	if r == nil {
		r = st.NewRef()
	}
	func() {
		defer func() {
			if x := recover(); x != nil {
				if _, ok := x.(Unsupported); !ok {
					panic(x)
				}
				// value cannot be stored: keep the box opaque
			}
		}()
		st.StoreLoc(Loc{Key: "box:" + typeKey(t), Idx: []*Term{r}, T: t}, v)
	}()
	return &IfaceV{Tid: tid, Ref: r}
}

func (e *Exec) unbox(st *State, t types.Type, i *IfaceV) Value {
	if p, ok := t.Underlying().(*types.Pointer); ok {
		return termToPtr(i.Ref, p.Elem())
	}
	v := st.LoadLoc(Loc{Key: "box:" + typeKey(t), Idx: []*Term{i.Ref}, T: t})
	e.assumeValid(st, t, v)
	// every interface value of dynamic type t was made by boxing its content: its reference is box(content)
	func() {
		defer func() {
			if x := recover(); x != nil {
				if _, ok := x.(Unsupported); !ok {
					panic(x)
				}
			}
		}()
		if fl := flatten(t, v); len(fl) > 0 {
			st.AssumeFact(Implies(Eq(i.Tid, e.tid(t)), Eq(App("box:"+typeKey(t), SInt, fl...), i.Ref)))
		}
	}()
	return v
}

// implementsTids returns the condition "dynamic type of i implements interface it" over the known concrete types.
func (e *Exec) implementsCond(i *IfaceV, it *types.Interface) *Term {
	// the set of known types grows lazily; use an uninterpreted predicate per interface for unknown tids,
	// and concrete answers for constant tids.
	if i.Tid.Op == "intconst" {
		if i.Tid.Val == 0 {
			return False
		}
		t := e.tidTypes[int(i.Tid.Val)-1]
		if t == nil {
			return False // foreign value of a library-private type (e.g. *errors.errorString): no extra methods assumed
		}
		return Bool(types.Implements(t, it))
	}
	return And(Not(Eq(i.Tid, IntConst(0))), App("implements:"+it.String(), SBool, i.Tid))
}

func (e *Exec) typeAssert(st *State, fr *Frame, x *ssa.TypeAssert) Value {
	i := e.val(fr, x.X).(*IfaceV)
	var ok *Term
	var res Value
	if it, isI := x.AssertedType.Underlying().(*types.Interface); isI {
		ok = e.implementsCond(i, it)
		res = i
	} else {
		ok = Eq(i.Tid, e.tid(x.AssertedType))
	}
	if x.CommaOk {
		if res == nil {
			if ok == False {
				res = zeroValue(x.AssertedType)
			} else {
				res = e.unboxGuarded(st, x.AssertedType, i, ok)
			}
		} else {
			res = iteValue(ok, x.AssertedType, res, zeroValue(x.AssertedType))
		}
		return &TupleV{Vs: []Value{res, ok}}
	}
	e.oblige(st, fr, "safe.typeassert", x.Pos(), ok)
	if res == nil {
		res = e.unbox(st, x.AssertedType, i)
	}
	return res
}

func (e *Exec) unboxGuarded(st *State, t types.Type, i *IfaceV, ok *Term) Value {
	v := e.unbox(st, t, i)
	if ok == True {
		return v
	}
	return iteValue(ok, t, v, zeroValue(t))
}

// ---------- maps ----------

func mapKey(m *types.Map) string {
	return "M:" + types.TypeString(m, func(p *types.Package) string { return p.Name() })
}

func mapKeySort(m *types.Map) Sort {
	if !isScalar(m.Key()) {
		panic(unsupported("map with non-scalar key " + m.Key().String()))
	}
	return scalarSort(m.Key())
}

func (e *Exec) mapLoc(st *State, m *MapV, k *Term) (present *Term, l Loc) {
	ks := mapKeySort(m.T)
	pk := mapKey(m.T) + ".present"
	h := st.heap(pk, ArrSort(SInt, ArrSort(ks, SBool)))
	present = Select(Select(h, m.Ref), k)
	return present, Loc{Key: mapKey(m.T) + ".val", Idx: []*Term{m.Ref, k}, T: m.T.Elem()}
}

// map value heaps are indexed by (ref, key): reuse 2-level arrays with the key sort.
func (e *Exec) mapLoad(st *State, m *MapV, k *Term) (Value, *Term) {
	ks := mapKeySort(m.T)
	present, l := e.mapLoc(st, m, k)
	cs := components(l.T)
	ts := make([]*Term, len(cs))
	for i, c := range cs {
		h := st.heap(l.Key+c.suffix, ArrSort(SInt, ArrSort(ks, c.sort)))
		ts[i] = Select(Select(h, m.Ref), k)
	}
	v := unflatten(l.T, &ts)
	e.assumeValid(st, l.T, v)
	return v, present
}

func (e *Exec) mapStore(st *State, m *MapV, k *Term, v Value, present *Term) {
	ks := mapKeySort(m.T)
	pk := mapKey(m.T) + ".present"
	h := st.heap(pk, ArrSort(SInt, ArrSort(ks, SBool)))
	st.heaps[pk] = Store(h, m.Ref, Store(Select(h, m.Ref), k, present))
	st.written[pk] = true
	if v == nil {
		return
	}
	key := mapKey(m.T) + ".val"
	cs := components(m.T.Elem())
	ts := flatten(m.T.Elem(), v)
	for i, c := range cs {
		hk := key + c.suffix
		hh := st.heap(hk, ArrSort(SInt, ArrSort(ks, c.sort)))
		st.heaps[hk] = Store(hh, m.Ref, Store(Select(hh, m.Ref), k, ts[i]))
		st.written[hk] = true
	}
}

func (e *Exec) lookup(st *State, fr *Frame, x *ssa.Lookup) Value {
	switch m := e.val(fr, x.X).(type) {
	case *MapV:
		e.sharedAccessMap(st, fr, x.X, x.Pos())
		k := e.val(fr, x.Index).(*Term)
		v, present := e.mapLoad(st, m, k)
		v = iteValue(present, m.T.Elem(), v, zeroValue(m.T.Elem()))
		if x.CommaOk {
			return &TupleV{Vs: []Value{v, present}}
		}
		return v
	case *StrV:
		i := e.idx64(fr, x.Index)
		e.oblige(st, fr, "safe.index", x.Pos(), BVUlt(i, m.Len))
		return Select(m.Data, i)
	}
	panic(unsupported("Lookup"))
}

func (e *Exec) mapUpdate(st *State, fr *Frame, x *ssa.MapUpdate) {
	m := e.val(fr, x.Map).(*MapV)
	e.oblige(st, fr, "safe.nilmap", x.Pos(), Not(Eq(m.Ref, IntConst(0))))
	e.sharedAccessMap(st, fr, x.Map, x.Pos())
	e.frameCheck(st, fr, Loc{Key: mapKey(m.T), Idx: []*Term{m.Ref}}, x.Pos())
	k := e.val(fr, x.Key).(*Term)
	e.mapStore(st, m, k, e.val(fr, x.Value), True)
}

// ---------- binary operators ----------

func (e *Exec) binop(st *State, fr *Frame, op token.Token, a, b Value, ta, tb types.Type, pos token.Pos) Value {
	switch x := a.(type) {
	case *Term:
		y, ok := b.(*Term)
		if !ok {
			break
		}
		if x.Sort == SBool {
			switch op {
			case token.EQL:
				return Eq(x, y)
			case token.NEQ:
				return Not(Eq(x, y))
			case token.AND, token.LAND:
				return And(x, y)
			case token.OR, token.LOR:
				return Or(x, y)
			}
		}
		if x.Sort == SInt { // chan / func / etc.
			switch op {
			case token.EQL:
				return Eq(x, y)
			case token.NEQ:
				return Not(Eq(x, y))
			}
		}
		if isFloat(ta) {
			return e.fpBin(op, x, y, ta)
		}
		return e.intBin(st, fr, op, x, y, ta, tb, pos)
	case *StrV:
		y := b.(*StrV)
		switch op {
		case token.EQL:
			return e.strEq(x, y)
		case token.NEQ:
			return Not(e.strEq(x, y))
		case token.ADD:
			return e.strConcat(x, y)
		}
	case *PtrV:
		y := b.(*PtrV)
		eq := e.ptrEq(x, y)
		if op == token.EQL {
			return eq
		}
		if op == token.NEQ {
			return Not(eq)
		}
	case *IfaceV:
		y := b.(*IfaceV)
		// pointer-shaped dynamic values compare by identity; boxed values compare by identity of the box (approximation
		// noted in the trusted base: interface equality of boxed non-pointer values is not modelled by value)
		eq := And(Eq(x.Tid, y.Tid), Eq(x.Ref, y.Ref))
		if y.Tid.Op == "intconst" && y.Tid.Val == 0 {
			eq = Eq(x.Tid, IntConst(0))
		} else if x.Tid.Op == "intconst" && x.Tid.Val == 0 {
			eq = Eq(y.Tid, IntConst(0))
		} else {
			e.note("interface==interface compares dynamic type and reference (boxed scalars compared by box identity)")
		}
		if op == token.EQL {
			return eq
		}
		if op == token.NEQ {
			return Not(eq)
		}
	case *SliceV: // only comparison with nil
		y := b.(*SliceV)
		var eq *Term
		if y.Arr.Op == "intconst" && y.Arr.Val == 0 {
			eq = Eq(x.Arr, IntConst(0))
		} else {
			eq = Eq(y.Arr, IntConst(0))
		}
		if op == token.EQL {
			return eq
		}
		return Not(eq)
	case *MapV:
		y := b.(*MapV)
		eq := Eq(x.Ref, y.Ref)
		if op == token.EQL {
			return eq
		}
		return Not(eq)
	case *FuncV:
		y := b.(*FuncV)
		var eq *Term
		switch {
		case x.Opq != nil && y.Opq != nil:
			eq = Eq(x.Opq, y.Opq)
		case x.Fn != nil && y.Opq != nil && y.Opq.Op == "intconst":
			eq = False
		case y.Fn != nil && x.Opq != nil && x.Opq.Op == "intconst":
			eq = False
		default:
			panic(unsupported("function comparison"))
		}
		if op == token.EQL {
			return eq
		}
		return Not(eq)
	case *GhostV:
		y := b.(*GhostV)
		var cs []*Term
		for i := range x.C {
			cs = append(cs, Eq(x.C[i], y.C[i]))
		}
		if op == token.EQL {
			return And(cs...)
		}
		return Not(And(cs...))
	case *StructV:
		y := b.(*StructV)
		fa, fb := flatten(ta, x), flatten(tb, y)
		var cs []*Term
		for i := range fa {
			cs = append(cs, Eq(fa[i], fb[i]))
		}
		if op == token.EQL {
			return And(cs...)
		}
		return Not(And(cs...))
	}
	panic(unsupported(fmt.Sprintf("binop %s on %s,%s", op, describeValue(a), describeValue(b))))
}

func (e *Exec) ptrEq(x, y *PtrV) *Term {
	if x.Kind == PObj && y.Kind == PObj {
		if len(x.Path) == 0 && len(y.Path) == 0 {
			return Eq(x.Base, y.Base)
		}
		if len(x.Path) == len(y.Path) {
			same := true
			for i := range x.Path {
				if x.Path[i] != y.Path[i] {
					same = false
				}
			}
			if same {
				return Eq(x.Base, y.Base)
			}
		}
		// nil vs interior pointer
		if y.Base.Op == "intconst" && len(y.Path) == 0 {
			return Eq(x.Base, IntConst(0))
		}
		if x.Base.Op == "intconst" && len(x.Path) == 0 {
			return Eq(y.Base, IntConst(0))
		}
	}
	if x.Kind == PArr && y.Kind == PArr {
		return Eq(x.Arr, y.Arr)
	}
	panic(unsupported("pointer comparison"))
}

func (e *Exec) intBin(st *State, fr *Frame, op token.Token, x, y *Term, ta, tb types.Type, pos token.Pos) Value {
	signed := isSigned(ta)
	switch op {
	case token.SHL, token.SHR:
		w := x.Sort.Width()
		yw := y.Sort.Width()
		if isSigned(tb) {
			e.oblige(st, fr, "safe.shift", pos, BVSle(BVConst(0, yw), y))
		}
		var yy *Term
		switch {
		case yw < w:
			yy = ZeroExt(y, w)
		case yw > w:
			yy = Ite(BVUlt(y, BVConst(uint64(w), yw)), Extract(w-1, 0, y), BVConst(uint64(w), w))
		default:
			yy = y
		}
		if op == token.SHL {
			return BVShl(x, yy)
		}
		if signed {
			return BVAshr(x, yy)
		}
		return BVLshr(x, yy)
	}
	if x.Sort != y.Sort {
		panic(fmt.Sprintf("internal: intBin sort mismatch %s %s %s", x.Sort, op, y.Sort))
	}
	w := x.Sort.Width()
	switch op {
	case token.ADD:
		return BVAdd(x, y)
	case token.SUB:
		return BVSub(x, y)
	case token.MUL:
		return BVMul(x, y)
	case token.QUO:
		e.oblige(st, fr, "safe.div", pos, Not(Eq(y, BVConst(0, w))))
		if signed {
			return bvBin("bvsdiv", x, y)
		}
		return bvBin("bvudiv", x, y)
	case token.REM:
		e.oblige(st, fr, "safe.div", pos, Not(Eq(y, BVConst(0, w))))
		if signed {
			return bvBin("bvsrem", x, y)
		}
		return bvBin("bvurem", x, y)
	case token.AND:
		return BVAnd(x, y)
	case token.OR:
		return BVOr(x, y)
	case token.XOR:
		return BVXor(x, y)
	case token.AND_NOT:
		return BVAnd(x, BVNot(y))
	case token.EQL:
		return Eq(x, y)
	case token.NEQ:
		return Not(Eq(x, y))
	case token.LSS:
		if signed {
			return BVSlt(x, y)
		}
		return BVUlt(x, y)
	case token.LEQ:
		if signed {
			return BVSle(x, y)
		}
		return BVUle(x, y)
	case token.GTR:
		if signed {
			return BVSlt(y, x)
		}
		return BVUlt(y, x)
	case token.GEQ:
		if signed {
			return BVSle(y, x)
		}
		return BVUle(y, x)
	}
	panic(unsupported("integer op " + op.String()))
}

// ---------- strings ----------

func (e *Exec) strEq(a, b *StrV) *Term {
	if a.Const != nil && b.Const != nil {
		return Bool(*a.Const == *b.Const)
	}
	if b.Const != nil {
		a, b = b, a
	}
	if a.Const != nil {
		cs := []*Term{Eq(b.Len, a.Len)}
		for i := 0; i < len(*a.Const); i++ {
			cs = append(cs, Eq(Select(b.Data, BVConst(uint64(i), 64)), BVConst(uint64((*a.Const)[i]), 8)))
		}
		return And(cs...)
	}
	if a.Data == b.Data && a.Len == b.Len {
		return True
	}
	return e.seqEq(a.Data, BVConst(0, 64), a.Len, b.Data, BVConst(0, 64), b.Len)
}

// seqEq defines a boolean that is true iff the two sequences are equal (conservative definition of a fresh symbol):
//
//	eq  ==> lengths equal and forall j: ad[j] = bd[j-aoff+boff] on the range, triggered by ANY read of ad (and vice versa)
//	!eq ==> lengths differ or the sequences differ at the skolem position k
func (e *Exec) seqEq(ad, aoff, alen, bd, boff, blen *Term) *Term {
	if ad == bd && aoff == boff {
		return Eq(alen, blen)
	}
	key := fmt.Sprintf("seqeq:%d:%d:%d:%d:%d:%d", ad.ID, aoff.ID, alen.ID, bd.ID, boff.ID, blen.ID)
	eq := App(key, SBool)
	if !e.notes["def:"+key] {
		e.notes["def:"+key] = true
		n0 := len(e.axioms)
		defer func() { e.defAxioms[key] = append(e.defAxioms[key], e.axioms[n0:]...); e.axioms = e.axioms[:n0] }()
		simple := func(t *Term) bool {
			for t.Op == "select" {
				t = t.Args[0]
			}
			return t.Op == "var"
		}
		name := func(t *Term, p string) *Term {
			if simple(t) || t.IsConst() {
				return t
			}
			v := Fresh(p, t.Sort)
			e.axioms = append(e.axioms, Eq(v, t))
			return v
		}
		na, nb := name(ad, "sa"), name(bd, "sb")
		i := BoundVar("i", BV(64))
		j := BoundVar("j", BV(64))
		relA := BVSub(i, aoff)
		relB := BVSub(j, boff)
		allA := Forall([]*Term{i}, Implies(BVUlt(relA, alen), Eq(Select(na, i), Select(nb, BVAdd(boff, relA)))), Select(na, i))
		allB := Forall([]*Term{j}, Implies(BVUlt(relB, alen), Eq(Select(nb, j), Select(na, BVAdd(aoff, relB)))), Select(nb, j))
		k := Fresh("sk", BV(64))
		e.axioms = append(e.axioms,
			Implies(eq, And(Eq(alen, blen), allA, allB)),
			Implies(Not(eq), Or(Not(Eq(alen, blen)), And(BVUlt(k, alen), Not(Eq(Select(ad, BVAdd(aoff, k)), Select(bd, BVAdd(boff, k))))))))
	}
	return eq
}

func (e *Exec) strConcat(a, b *StrV) *StrV {
	if a.Const != nil && b.Const != nil {
		return constString(*a.Const + *b.Const)
	}
	n := BVAdd(a.Len, b.Len)
	d := ArrayCopy(a.Data, a.Len, b.Data, BVConst(0, 64), b.Len)
	return &StrV{Data: d, Len: n}
}

// ---------- floats (float64 carried as bit patterns) ----------

func fpSortOf(t types.Type) (string, int) {
	if scalarSort(t).Width() == 32 {
		return "(_ to_fp 8 24)", 32
	}
	return "(_ to_fp 11 53)", 64
}

func (e *Exec) toFP(x *Term, t types.Type) *Term {
	conv, w := fpSortOf(t)
	s := Sort("(_ FloatingPoint 11 53)")
	if w == 32 {
		s = "(_ FloatingPoint 8 24)"
	}
	return FPOp(conv, s, x)
}

// fromFP introduces a bit pattern whose value is the given FP term.
func (e *Exec) fromFP(f *Term, t types.Type) *Term {
	key := fmt.Sprintf("fpbits:%d", f.ID)
	w := scalarSort(t).Width()
	b := App(key, BV(w))
	if !e.notes["def:"+key] {
		e.notes["def:"+key] = true
		n0 := len(e.axioms)
		defer func() { e.defAxioms[key] = append(e.defAxioms[key], e.axioms[n0:]...); e.axioms = e.axioms[:n0] }()
		e.axioms = append(e.axioms, FPOp("=", SBool, e.toFP(b, t), f))
		// canonical NaN so the pattern is determined
		nan := BVConst(0x7ff8000000000001, 64)
		if w == 32 {
			nan = BVConst(0x7fc00000, 32)
		}
		e.axioms = append(e.axioms, Implies(FPOp("fp.isNaN", SBool, f), Eq(b, nan)))
	}
	return b
}

var rne = intern(&Term{Op: "var", Name: "RNE", Sort: "RoundingMode"})

func (e *Exec) fpBin(op token.Token, x, y *Term, t types.Type) Value {
	fx, fy := e.toFP(x, t), e.toFP(y, t)
	switch op {
	case token.ADD:
		return e.fromFP(FPOp("fp.add", fx.Sort, rne, fx, fy), t)
	case token.SUB:
		return e.fromFP(FPOp("fp.sub", fx.Sort, rne, fx, fy), t)
	case token.MUL:
		return e.fromFP(FPOp("fp.mul", fx.Sort, rne, fx, fy), t)
	case token.QUO:
		return e.fromFP(FPOp("fp.div", fx.Sort, rne, fx, fy), t)
	case token.EQL:
		return FPOp("fp.eq", SBool, fx, fy)
	case token.NEQ:
		return Not(FPOp("fp.eq", SBool, fx, fy))
	case token.LSS:
		return FPOp("fp.lt", SBool, fx, fy)
	case token.LEQ:
		return FPOp("fp.leq", SBool, fx, fy)
	case token.GTR:
		return FPOp("fp.gt", SBool, fx, fy)
	case token.GEQ:
		return FPOp("fp.geq", SBool, fx, fy)
	}
	panic(unsupported("float op " + op.String()))
}

func (e *Exec) fpNeg(x *Term, t types.Type) Value {
	w := scalarSort(t).Width()
	return BVXor(x, BVConst(uint64(1)<<uint(w-1), w))
}

func (e *Exec) intToFloat(x *Term, from, to types.Type) Value {
	conv, w := fpSortOf(to)
	s := Sort("(_ FloatingPoint 11 53)")
	if w == 32 {
		s = "(_ FloatingPoint 8 24)"
	}
	var f *Term
	if isSigned(from) {
		f = FPOp(conv, s, rne, x)
	} else {
		f = FPOp(strings.Replace(conv, "to_fp", "to_fp_unsigned", 1), s, rne, x)
	}
	return e.fromFP(f, to)
}

func (e *Exec) floatToInt(st *State, x *Term, from, to types.Type) Value {
	// Go: result is implementation-defined when out of range; model in-range truncation, otherwise unspecified.
	w := scalarSort(to).Width()
	f := e.toFP(x, from)
	op := fmt.Sprintf("(_ fp.to_sbv %d)", w)
	if !isSigned(to) {
		op = fmt.Sprintf("(_ fp.to_ubv %d)", w)
	}
	rtz := intern(&Term{Op: "var", Name: "RTZ", Sort: "RoundingMode"})
	e.note("float->int conversion: out-of-range results are unspecified (as in the Go spec)")
	return FPOp(op, BV(w), rtz, f)
}

// ---------- frame / shared-access hooks (filled by contracts) ----------

func (e *Exec) frameCheck(st *State, fr *Frame, l Loc, pos token.Pos) {
	if e.discovery > 0 || e.specMode > 0 {
		return
	}
	e.checkAssigns(st, fr, l, pos)
}

func sortedKeys(m map[string]bool) []string {
	var ks []string
	for k := range m {
		ks = append(ks, k)
	}
	sort.Strings(ks)
	return ks
}

// runBranch explores one side of a fork. If the exploration leaves the supported subset, the branch is first checked
// for feasibility (one solver call): code that the path condition rules out (a slow path excluded by the precondition,
// say) need not be modelled, and is skipped with a note instead of failing the whole function closed.
func (e *Exec) runBranch(st *State, fr *Frame, succ, from *ssa.BasicBlock) (out []Outcome) {
	if e.specMode > 0 || e.discovery > 0 {
		return e.runBlock(st, fr, succ, from, 0)
	}
	atFork := append(append([]*Term{}, st.pc...), st.facts...)
	nObls := len(e.obls)
	defer func() {
		if x := recover(); x != nil {
			if u, ok := x.(Unsupported); ok && infeasible(atFork) {
				e.obls = e.obls[:nObls]
				e.note("SKIPPED an infeasible branch that leaves the supported subset (" + u.Error() + ") in " + e.curFn)
				out = nil
				return
			}
			panic(x)
		}
	}()
	return e.runBlock(st, fr, succ, from, 0)
}

// infeasible: do the solvers refute the conjunction (within a few seconds)?
func infeasible(ts []*Term) bool {
	asserts := append([]*Term{}, ts...)
	asserts = append(asserts, boundFactsFor(asserts...)...)
	p := NewPrinter()
	q := p.Query(asserts, nil)
	f, err := os.CreateTemp("", "govc-feas-*.smt2")
	if err != nil {
		return false
	}
	defer os.Remove(f.Name())
	f.WriteString(q)
	f.Close()
	for _, s := range solvers {
		if !s.ok(q) {
			continue
		}
		ctx, cancel := context.WithCancel(context.Background())
		v, _, _ := runSolver(ctx, s, 8, f.Name())
		cancel()
		if v == "unsat" {
			return true
		}
		if v == "sat" {
			return false
		}
	}
	return false
}

// unsafeStore: a store through an unsafe pointer. Accepted only in a function whose contract file names the slice the
// stores land in (`unsafe-abstract <fn> <param>`): every element of that slice (as passed in) becomes arbitrary. That
// the stores stay inside the slice is NOT checked - it is listed as an assumption in the evidence.
func (e *Exec) unsafeStore(st *State, fr *Frame, pos token.Pos) {
	sp := e.specs.ForFn(fr.fn)
	if sp == nil || sp.UnsafeAbstract == "" {
		panic(unsupported("store through an unsafe pointer"))
	}
	b, ok := fr.params[sp.UnsafeAbstract].(*SliceV)
	if !ok {
		panic(unsupported("unsafe-abstract names no slice parameter: " + sp.UnsafeAbstract))
	}
	e.note("assumed: stores through unsafe pointers in " + sp.Target + " stay inside the elements of its parameter " + sp.UnsafeAbstract + " (their effect is abstracted: those elements become arbitrary)")
	cs := components(b.Elem)
	if len(cs) != 1 {
		panic(unsupported("unsafe-abstract on a slice of non-scalars"))
	}
	e.frameCheck(st, fr, Loc{Key: elemKey(b.Elem), Idx: []*Term{b.Arr}}, pos)
	old := st.arrayOf(b.Elem, cs[0], b.Arr)
	st.setArrayOf(b.Elem, cs[0], b.Arr, ArrayCopy(old, b.Off, Fresh("unsafe.stored", old.Sort), b.Off, b.Len))
}
