package main

// SMT term DAG with hash-consing, light simplification and SMT-LIB printing.

import (
	"fmt"
	"sort"
	"strconv"
	"strings"
)

type Sort string

const (
	SBool Sort = "Bool"
	SInt  Sort = "Int"
)

func BV(n int) Sort { return Sort("(_ BitVec " + strconv.Itoa(n) + ")") }
func ArrSort(idx, elem Sort) Sort {
	return Sort("(Array " + string(idx) + " " + string(elem) + ")")
}

func (s Sort) IsBV() bool { return strings.HasPrefix(string(s), "(_ BitVec ") }
func (s Sort) Width() int {
	if !s.IsBV() {
		panic("not a bv sort: " + string(s))
	}
	n, _ := strconv.Atoi(strings.TrimSuffix(strings.TrimPrefix(string(s), "(_ BitVec "), ")"))
	return n
}
func (s Sort) IsArray() bool { return strings.HasPrefix(string(s), "(Array ") }

// ArrayParts splits "(Array I E)" into I and E.
func (s Sort) ArrayParts() (Sort, Sort) {
	str := strings.TrimSuffix(strings.TrimPrefix(string(s), "(Array "), ")")
	// first sort token: either atom or parenthesised
	depth := 0
	for i, c := range str {
		switch c {
		case '(':
			depth++
		case ')':
			depth--
		case ' ':
			if depth == 0 {
				return Sort(str[:i]), Sort(str[i+1:])
			}
		}
	}
	panic("bad array sort " + string(s))
}

type Term struct {
	ID   int
	Op   string // "var", "bvconst", "intconst", "true", "false", or an SMT operator
	Args []*Term
	Sort Sort
	Name string // var name / bound var name
	Val  uint64 // bvconst (width<=64) / intconst (as int64)
	I1   int    // indexed ops: extract hi / extend amount
	I2   int    // extract lo
	// quantifiers / lambda: Op "forall"/"lambda": Bound vars in BV, body in Args[0], optional pattern Args[1:]
	Bound    []*Term
	hasBound bool // contains a bound variable (cannot be hoisted to define-fun)
	hasIP    bool // contains an interior-pointer application (value.go: ipTerm)
}

var (
	termTab  = map[string]*Term{}
	termList []*Term
	freshN   int
)

func intern(t *Term) *Term {
	var sb strings.Builder
	sb.WriteString(t.Op)
	sb.WriteByte('|')
	sb.WriteString(string(t.Sort))
	sb.WriteByte('|')
	sb.WriteString(t.Name)
	sb.WriteByte('|')
	sb.WriteString(strconv.FormatUint(t.Val, 16))
	sb.WriteByte('|')
	sb.WriteString(strconv.Itoa(t.I1))
	sb.WriteByte(',')
	sb.WriteString(strconv.Itoa(t.I2))
	for _, b := range t.Bound {
		sb.WriteString("|b")
		sb.WriteString(strconv.Itoa(b.ID))
	}
	for _, a := range t.Args {
		sb.WriteByte('|')
		sb.WriteString(strconv.Itoa(a.ID))
	}
	k := sb.String()
	if o, ok := termTab[k]; ok {
		return o
	}
	t.ID = len(termList) + 1
	for _, a := range t.Args {
		if a.hasBound {
			t.hasBound = true
		}
		if a.hasIP {
			t.hasIP = true
		}
	}
	if t.Op == "app" && strings.HasPrefix(t.Name, "ip:") {
		t.hasIP = true
	}
	if t.Op == "bound" {
		t.hasBound = true
	}
	if t.Op == "lambda" || t.Op == "forall" {
		t.hasBound = false
		for _, a := range collectBound(t.Args[0]) {
			found := false
			for _, b := range t.Bound {
				if a == b {
					found = true
				}
			}
			if !found {
				t.hasBound = true
			}
		}
	}
	termTab[k] = t
	termList = append(termList, t)
	return t
}

func Var(name string, s Sort) *Term { return intern(&Term{Op: "var", Name: name, Sort: s}) }
func Fresh(prefix string, s Sort) *Term {
	freshN++
	return Var(fmt.Sprintf("%s!%d", sanitize(prefix), freshN), s)
}
func BoundVar(name string, s Sort) *Term {
	freshN++
	return intern(&Term{Op: "bound", Name: fmt.Sprintf("%s?%d", name, freshN), Sort: s})
}

func sanitize(s string) string {
	var sb strings.Builder
	for _, c := range s {
		if c >= 'a' && c <= 'z' || c >= 'A' && c <= 'Z' || c >= '0' && c <= '9' || c == '_' || c == '.' || c == '$' {
			sb.WriteRune(c)
		} else {
			sb.WriteByte('_')
		}
	}
	return sb.String()
}

var (
	True  = intern(&Term{Op: "true", Sort: SBool})
	False = intern(&Term{Op: "false", Sort: SBool})
)

func Bool(b bool) *Term {
	if b {
		return True
	}
	return False
}

func mask(w int) uint64 {
	if w >= 64 {
		return ^uint64(0)
	}
	return (uint64(1) << uint(w)) - 1
}

func BVConst(v uint64, w int) *Term {
	if w > 64 {
		panic("bv width > 64")
	}
	return intern(&Term{Op: "bvconst", Sort: BV(w), Val: v & mask(w)})
}
func IntConst(v int64) *Term { return intern(&Term{Op: "intconst", Sort: SInt, Val: uint64(v)}) }

func (t *Term) IsConst() bool {
	return t.Op == "bvconst" || t.Op == "intconst" || t.Op == "true" || t.Op == "false"
}
func (t *Term) IsTrue() bool  { return t == True }
func (t *Term) IsFalse() bool { return t == False }

func signExt(v uint64, w int) int64 {
	if w >= 64 {
		return int64(v)
	}
	if v&(1<<uint(w-1)) != 0 {
		return int64(v | ^mask(w))
	}
	return int64(v)
}

func mk(op string, s Sort, args ...*Term) *Term {
	return intern(&Term{Op: op, Sort: s, Args: args})
}

// ---- boolean ----

func Not(a *Term) *Term {
	if a.Sort != SBool {
		panic("Not on non-bool " + string(a.Sort))
	}
	switch {
	case a == True:
		return False
	case a == False:
		return True
	case a.Op == "not":
		return a.Args[0]
	}
	return mk("not", SBool, a)
}

func And(as ...*Term) *Term {
	var out []*Term
	seen := map[int]bool{}
	var add func(t *Term) bool
	add = func(t *Term) bool {
		if t.Sort != SBool {
			panic("And on non-bool")
		}
		if t == False {
			return false
		}
		if t == True || seen[t.ID] {
			return true
		}
		if t.Op == "and" {
			for _, x := range t.Args {
				if !add(x) {
					return false
				}
			}
			return true
		}
		seen[t.ID] = true
		out = append(out, t)
		return true
	}
	for _, a := range as {
		if !add(a) {
			return False
		}
	}
	for _, t := range out {
		if t.Op == "not" && seen[t.Args[0].ID] {
			return False
		}
	}
	switch len(out) {
	case 0:
		return True
	case 1:
		return out[0]
	}
	return mk("and", SBool, out...)
}

func Or(as ...*Term) *Term {
	var out []*Term
	seen := map[int]bool{}
	var add func(t *Term) bool
	add = func(t *Term) bool {
		if t == True {
			return false
		}
		if t == False || seen[t.ID] {
			return true
		}
		if t.Op == "or" {
			for _, x := range t.Args {
				if !add(x) {
					return false
				}
			}
			return true
		}
		seen[t.ID] = true
		out = append(out, t)
		return true
	}
	for _, a := range as {
		if !add(a) {
			return True
		}
	}
	for _, t := range out {
		if t.Op == "not" && seen[t.Args[0].ID] {
			return True
		}
	}
	switch len(out) {
	case 0:
		return False
	case 1:
		return out[0]
	}
	return mk("or", SBool, out...)
}

func Implies(a, b *Term) *Term { return Or(Not(a), b) }

func Ite(c, a, b *Term) *Term {
	if a.Sort != b.Sort {
		panic(fmt.Sprintf("ite sort mismatch %s vs %s", a.Sort, b.Sort))
	}
	switch {
	case c == True:
		return a
	case c == False:
		return b
	case a == b:
		return a
	}
	if a.Sort == SBool {
		if a == True && b == False {
			return c
		}
		if a == False && b == True {
			return Not(c)
		}
		if a == True {
			return Or(c, b)
		}
		if b == False {
			return And(c, a)
		}
		if a == False {
			return And(Not(c), b)
		}
		if b == True {
			return Or(Not(c), a)
		}
	}
	return mk("ite", a.Sort, c, a, b)
}

func Eq(a, b *Term) *Term {
	if a.Sort != b.Sort {
		panic(fmt.Sprintf("eq sort mismatch %s vs %s (%s, %s)", a.Sort, b.Sort, a.Op, b.Op))
	}
	if a == b {
		return True
	}
	if a.IsConst() && b.IsConst() {
		return Bool(a.Val == b.Val && a.Op == b.Op)
	}
	if a.Sort == SBool {
		if a == True {
			return b
		}
		if b == True {
			return a
		}
		if a == False {
			return Not(b)
		}
		if b == False {
			return Not(a)
		}
	}
	// refs: (a0 + k1) vs (a0 + k2)
	if a.Op == "ref" && b.Op == "ref" {
		return Bool(a.Val == b.Val && a.I1 == b.I1)
	}
	if a.Sort == SInt && distinctConsts(a, b) {
		return False
	}
	if a.ID > b.ID {
		a, b = b, a
	}
	// ite with constant arms against a constant
	if b.IsConst() && a.Op == "ite" && a.Args[1].IsConst() && a.Args[2].IsConst() {
		return Ite(a.Args[0], Eq(a.Args[1], b), Eq(a.Args[2], b))
	}
	if a.IsConst() && b.Op == "ite" && b.Args[1].IsConst() && b.Args[2].IsConst() {
		return Ite(b.Args[0], Eq(b.Args[1], a), Eq(b.Args[2], a))
	}
	return mk("=", SBool, a, b)
}

// ---- Int (references, ghost positions) ----

// isInputRef: variables named "in:..." of sort Int are references that exist at function entry (< a0).
func isInputRef(t *Term) bool {
	return t.Op == "var" && t.Sort == SInt && strings.HasPrefix(t.Name, "in:")
}

func IntAdd(a, b *Term) *Term {
	if a.Op == "intconst" && b.Op == "intconst" {
		return IntConst(int64(a.Val) + int64(b.Val))
	}
	if a.Op == "intconst" && a.Val == 0 {
		return b
	}
	if b.Op == "intconst" && b.Val == 0 {
		return a
	}
	return mk("+", SInt, a, b)
}
func IntSub(a, b *Term) *Term {
	if a.Op == "intconst" && b.Op == "intconst" {
		return IntConst(int64(a.Val) - int64(b.Val))
	}
	if b.Op == "intconst" && b.Val == 0 {
		return a
	}
	return mk("-", SInt, a, b)
}
func IntLe(a, b *Term) *Term {
	if a.Op == "intconst" && b.Op == "intconst" {
		return Bool(int64(a.Val) <= int64(b.Val))
	}
	return mk("<=", SBool, a, b)
}
func IntLt(a, b *Term) *Term {
	if a.Op == "intconst" && b.Op == "intconst" {
		return Bool(int64(a.Val) < int64(b.Val))
	}
	return mk("<", SBool, a, b)
}

// ---- bit-vectors ----

func bvBin(op string, a, b *Term) *Term {
	if a.Sort != b.Sort {
		panic(fmt.Sprintf("%s sort mismatch %s vs %s", op, a.Sort, b.Sort))
	}
	w := a.Sort.Width()
	m := mask(w)
	if a.Op == "bvconst" && b.Op == "bvconst" {
		x, y := a.Val, b.Val
		switch op {
		case "bvadd":
			return BVConst(x+y, w)
		case "bvsub":
			return BVConst(x-y, w)
		case "bvmul":
			return BVConst(x*y, w)
		case "bvand":
			return BVConst(x&y, w)
		case "bvor":
			return BVConst(x|y, w)
		case "bvxor":
			return BVConst(x^y, w)
		case "bvshl":
			if y >= uint64(w) {
				return BVConst(0, w)
			}
			return BVConst(x<<y, w)
		case "bvlshr":
			if y >= uint64(w) {
				return BVConst(0, w)
			}
			return BVConst(x>>y, w)
		case "bvashr":
			sx := signExt(x, w)
			if y >= uint64(w) {
				y = uint64(w - 1)
			}
			return BVConst(uint64(sx>>y), w)
		case "bvudiv":
			if y != 0 {
				return BVConst(x/y, w)
			}
		case "bvurem":
			if y != 0 {
				return BVConst(x%y, w)
			}
		case "bvsdiv":
			if y != 0 {
				sx, sy := signExt(x, w), signExt(y, w)
				if !(sy == -1 && sx == signExt(uint64(1)<<uint(w-1), w)) {
					return BVConst(uint64(sx/sy), w)
				}
			}
		case "bvsrem":
			if y != 0 {
				sx, sy := signExt(x, w), signExt(y, w)
				if sy != -1 {
					return BVConst(uint64(sx%sy), w)
				}
				return BVConst(0, w)
			}
		}
	}
	// identities
	isC := func(t *Term, v uint64) bool { return t.Op == "bvconst" && t.Val == v&m }
	switch op {
	case "bvadd", "bvor", "bvxor":
		if isC(a, 0) {
			return b
		}
		if isC(b, 0) {
			return a
		}
		if op == "bvor" && (isC(a, m) || isC(b, m)) {
			return BVConst(m, w)
		}
		if op == "bvor" && a == b {
			return a
		}
	case "bvsub", "bvshl", "bvlshr", "bvashr":
		if isC(b, 0) {
			return a
		}
		if op != "bvsub" && isC(a, 0) {
			return a
		}
		if op == "bvsub" && a == b {
			return BVConst(0, w)
		}
	case "bvand":
		if isC(a, 0) || isC(b, 0) {
			return BVConst(0, w)
		}
		if isC(a, m) {
			return b
		}
		if isC(b, m) {
			return a
		}
		if a == b {
			return a
		}
	case "bvmul":
		if isC(a, 0) || isC(b, 0) {
			return BVConst(0, w)
		}
		if isC(a, 1) {
			return b
		}
		if isC(b, 1) {
			return a
		}
	}
	// (x + c1) + c2 => x + (c1+c2)
	if op == "bvadd" {
		if a.Op == "bvconst" {
			a, b = b, a
		}
		if b.Op == "bvconst" && a.Op == "bvadd" && a.Args[1].Op == "bvconst" {
			return bvBin("bvadd", a.Args[0], BVConst(a.Args[1].Val+b.Val, w))
		}
	}
	if op == "bvsub" && b.Op == "bvconst" {
		return bvBin("bvadd", a, BVConst(-b.Val, w))
	}
	return mk(op, a.Sort, a, b)
}

func BVAdd(a, b *Term) *Term  { return bvBin("bvadd", a, b) }
func BVSub(a, b *Term) *Term  { return bvBin("bvsub", a, b) }
func BVMul(a, b *Term) *Term  { return bvBin("bvmul", a, b) }
func BVAnd(a, b *Term) *Term  { return bvBin("bvand", a, b) }
func BVOr(a, b *Term) *Term   { return bvBin("bvor", a, b) }
func BVXor(a, b *Term) *Term  { return bvBin("bvxor", a, b) }
func BVShl(a, b *Term) *Term  { return bvBin("bvshl", a, b) }
func BVLshr(a, b *Term) *Term { return bvBin("bvlshr", a, b) }
func BVAshr(a, b *Term) *Term { return bvBin("bvashr", a, b) }
func BVNot(a *Term) *Term {
	if a.Op == "bvconst" {
		return BVConst(^a.Val, a.Sort.Width())
	}
	return mk("bvnot", a.Sort, a)
}
func BVNeg(a *Term) *Term {
	if a.Op == "bvconst" {
		return BVConst(-a.Val, a.Sort.Width())
	}
	return mk("bvneg", a.Sort, a)
}

func bvCmp(op string, a, b *Term) *Term {
	if a.Sort != b.Sort {
		panic(fmt.Sprintf("%s sort mismatch %s vs %s", op, a.Sort, b.Sort))
	}
	w := a.Sort.Width()
	if a.Op == "bvconst" && b.Op == "bvconst" {
		switch op {
		case "bvult":
			return Bool(a.Val < b.Val)
		case "bvule":
			return Bool(a.Val <= b.Val)
		case "bvslt":
			return Bool(signExt(a.Val, w) < signExt(b.Val, w))
		case "bvsle":
			return Bool(signExt(a.Val, w) <= signExt(b.Val, w))
		}
	}
	if a == b {
		return Bool(op == "bvule" || op == "bvsle")
	}
	if op == "bvule" && a.Op == "bvconst" && a.Val == 0 {
		return True
	}
	// bounds known from type invariants (interval reasoning)
	{
		ua, oka := ub(a)
		ubb, okb := ub(b)
		la, lbv := lb(a), lb(b)
		unsignedOK := op == "bvult" || op == "bvule" || (oka && okb && ua < 1<<(uint(w)-1) && ubb < 1<<(uint(w)-1))
		if unsignedOK {
			strict := op == "bvult" || op == "bvslt"
			if oka && (strict && ua < lbv || !strict && ua <= lbv) {
				return True
			}
			if okb && (strict && la >= ubb || !strict && la > ubb) {
				return False
			}
		}
	}
	return mk(op, SBool, a, b)
}

func BVUlt(a, b *Term) *Term { return bvCmp("bvult", a, b) }
func BVUle(a, b *Term) *Term { return bvCmp("bvule", a, b) }
func BVSlt(a, b *Term) *Term { return bvCmp("bvslt", a, b) }
func BVSle(a, b *Term) *Term { return bvCmp("bvsle", a, b) }

func Extract(hi, lo int, a *Term) *Term {
	w := a.Sort.Width()
	if lo == 0 && hi == w-1 {
		return a
	}
	if a.Op == "bvconst" {
		return BVConst(a.Val>>uint(lo), hi-lo+1)
	}
	if (a.Op == "zero_extend" || a.Op == "sign_extend") && hi < a.Args[0].Sort.Width() {
		return Extract(hi, lo, a.Args[0])
	}
	if a.Op == "zero_extend" && lo >= a.Args[0].Sort.Width() {
		return BVConst(0, hi-lo+1)
	}
	return intern(&Term{Op: "extract", Sort: BV(hi - lo + 1), Args: []*Term{a}, I1: hi, I2: lo})
}

func ZeroExt(a *Term, to int) *Term {
	w := a.Sort.Width()
	if to == w {
		return a
	}
	if to < w {
		return Extract(to-1, 0, a)
	}
	if a.Op == "bvconst" {
		return BVConst(a.Val, to)
	}
	if a.Op == "zero_extend" {
		return ZeroExt(a.Args[0], to)
	}
	return intern(&Term{Op: "zero_extend", Sort: BV(to), Args: []*Term{a}, I1: to - w})
}

func SignExt(a *Term, to int) *Term {
	w := a.Sort.Width()
	if to == w {
		return a
	}
	if to < w {
		return Extract(to-1, 0, a)
	}
	if a.Op == "bvconst" {
		return BVConst(uint64(signExt(a.Val, w)), to)
	}
	if a.Op == "zero_extend" { // sign bit known 0
		return ZeroExt(a.Args[0], to)
	}
	return intern(&Term{Op: "sign_extend", Sort: BV(to), Args: []*Term{a}, I1: to - w})
}

func Concat(a, b *Term) *Term {
	w := a.Sort.Width() + b.Sort.Width()
	if a.Op == "bvconst" && b.Op == "bvconst" && w <= 64 {
		return BVConst(a.Val<<uint(b.Sort.Width())|b.Val, w)
	}
	return mk("concat", BV(w), a, b)
}

// ---- arrays ----

func distinctConsts(a, b *Term) bool {
	if a.Op == "ref" && b.Op == "ref" {
		return a.Val != b.Val || a.I1 != b.I1
	}
	if a.Op == "ref" && (isInputRef(b) || b.Op == "intconst" || isEntryLoad(b)) || b.Op == "ref" && (isInputRef(a) || a.Op == "intconst" || isEntryLoad(a)) {
		return true
	}
	// input references are >= 0, package-level variables live at negative references
	if isInputRef(a) && b.Op == "intconst" && int64(b.Val) < 0 || isInputRef(b) && a.Op == "intconst" && int64(a.Val) < 0 {
		return true
	}
	if a.IsConst() && b.IsConst() {
		return a.Val != b.Val
	}
	// disjoint intervals
	if a.Sort.IsBV() {
		if ua, ok := ub(a); ok && ua < lb(b) {
			return true
		}
		if ubb, ok := ub(b); ok && ubb < lb(a) {
			return true
		}
	}
	// x + c1 vs x + c2 on bit-vectors
	if a.Sort.IsBV() {
		ba, ca := splitAdd(a)
		bb, cb := splitAdd(b)
		if ba == bb && ca != cb {
			return true
		}
	}
	return false
}

// isEntryLoad: a reference read from the heap as it was on entry (H0:...): it existed then, so it is below every
// reference allocated since (the ref(...) terms)
func isEntryLoad(t *Term) bool {
	if t.Op != "select" || t.Sort != SInt {
		return false
	}
	a := t.Args[0]
	for a.Op == "select" {
		a = a.Args[0]
	}
	return a.Op == "var" && strings.HasPrefix(a.Name, "H0:")
}

func splitAdd(t *Term) (*Term, uint64) {
	if t.Op == "bvadd" && t.Args[1].Op == "bvconst" {
		return t.Args[0], t.Args[1].Val
	}
	if t.Op == "bvconst" {
		return nil, t.Val
	}
	return t, 0
}

func Select(a, i *Term) *Term {
	is, es := a.Sort.ArrayParts()
	if is != i.Sort {
		panic(fmt.Sprintf("select index sort %s vs %s", is, i.Sort))
	}
	for a.Op == "store" {
		if a.Args[1] == i {
			return a.Args[2]
		}
		if distinctConsts(a.Args[1], i) {
			a = a.Args[0]
			continue
		}
		break
	}
	if a.Op == "constarray" {
		return a.Args[0]
	}
	if a.Op == "lambda" && len(a.Bound) == 1 {
		return Subst(a.Args[0], a.Bound[0], i)
	}
	if a.Op == "ite" && (a.Args[1].Op == "lambda" || a.Args[2].Op == "lambda") {
		return Ite(a.Args[0], Select(a.Args[1], i), Select(a.Args[2], i))
	}
	return mk("select", es, a, i)
}

func Store(a, i, v *Term) *Term {
	is, es := a.Sort.ArrayParts()
	if is != i.Sort || es != v.Sort {
		panic(fmt.Sprintf("store sort mismatch: array %s idx %s val %s", a.Sort, i.Sort, v.Sort))
	}
	if a.Op == "store" && a.Args[1] == i {
		a = a.Args[0]
	}
	return mk("store", a.Sort, a, i, v)
}

func ConstArray(s Sort, v *Term) *Term {
	return intern(&Term{Op: "constarray", Sort: s, Args: []*Term{v}})
}

// Subst replaces the bound variable b by v in t (rebuilding through the simplifying constructors).
func Subst(t, b, v *Term) *Term {
	memo := map[int]*Term{}
	var go_ func(t *Term) *Term
	go_ = func(t *Term) *Term {
		if !t.hasBound {
			return t
		}
		if t == b {
			return v
		}
		if r, ok := memo[t.ID]; ok {
			return r
		}
		args := make([]*Term, len(t.Args))
		ch := false
		for i, a := range t.Args {
			args[i] = go_(a)
			if args[i] != a {
				ch = true
			}
		}
		r := t
		if ch {
			r = rebuild(t, args)
		}
		memo[t.ID] = r
		return r
	}
	return go_(t)
}

func rebuild(t *Term, a []*Term) *Term {
	switch t.Op {
	case "not":
		return Not(a[0])
	case "and":
		return And(a...)
	case "or":
		return Or(a...)
	case "ite":
		return Ite(a[0], a[1], a[2])
	case "=":
		return Eq(a[0], a[1])
	case "select":
		return Select(a[0], a[1])
	case "store":
		return Store(a[0], a[1], a[2])
	case "bvadd", "bvsub", "bvmul", "bvand", "bvor", "bvxor", "bvshl", "bvlshr", "bvashr", "bvudiv", "bvurem", "bvsdiv", "bvsrem":
		return bvBin(t.Op, a[0], a[1])
	case "bvult", "bvule", "bvslt", "bvsle":
		return bvCmp(t.Op, a[0], a[1])
	case "extract":
		return Extract(t.I1, t.I2, a[0])
	case "zero_extend":
		return ZeroExt(a[0], t.Sort.Width())
	case "sign_extend":
		return SignExt(a[0], t.Sort.Width())
	case "concat":
		return Concat(a[0], a[1])
	case "bvnot":
		return BVNot(a[0])
	case "bvneg":
		return BVNeg(a[0])
	}
	n := *t
	n.Args = a
	n.ID = 0
	n.hasBound = false
	return intern(&n)
}

// ArrayCopy(d, doff, s, soff, n): array equal to d except d[doff+k] = s[soff+k] for 0<=k<n (unsigned, no wrap assumed).
func ArrayCopy(d, doff, s, soff, n *Term) *Term {
	if n.Op == "bvconst" && n.Val == 0 {
		return d
	}
	if n.Op == "bvconst" && n.Val <= 16 {
		r := d
		for k := uint64(0); k < n.Val; k++ {
			kk := BVConst(k, 64)
			r = Store(r, BVAdd(doff, kk), Select(s, BVAdd(soff, kk)))
		}
		return r
	}
	i := BoundVar("i", BV(64))
	rel := BVSub(i, doff)
	body := Ite(BVUlt(rel, n), Select(s, BVAdd(soff, rel)), Select(d, i))
	return intern(&Term{Op: "lambda", Sort: d.Sort, Args: []*Term{body}, Bound: []*Term{i}})
}

func Forall(bound []*Term, body *Term, pats ...*Term) *Term {
	if body == True {
		return True
	}
	t := &Term{Op: "forall", Sort: SBool, Args: append([]*Term{body}, pats...), Bound: bound}
	return intern(t)
}

func collectBound(t *Term) []*Term {
	seen := map[int]bool{}
	var out []*Term
	var walk func(t *Term)
	walk = func(t *Term) {
		if seen[t.ID] || !t.hasBound {
			return
		}
		seen[t.ID] = true
		if t.Op == "bound" {
			out = append(out, t)
		}
		for _, a := range t.Args {
			walk(a)
		}
	}
	walk(t)
	return out
}

// Uninterpreted function application.
func App(fn string, s Sort, args ...*Term) *Term {
	return intern(&Term{Op: "app", Name: fn, Sort: s, Args: args})
}

// ---- floating point (float64 carried as BV64 bit pattern) ----

func FPOp(op string, s Sort, args ...*Term) *Term {
	return intern(&Term{Op: "fp:" + op, Sort: s, Args: args})
}

// ---- printing ----

type Printer struct {
	sb        strings.Builder
	done      map[int]bool
	decls     map[string]Sort   // free vars
	funs      map[string]string // uninterpreted function declarations
	declOrd   []string
	funOrd    []string
	noLambda  bool
	sawLambda bool
	lamAxioms []string
}

func NewPrinter() *Printer {
	return &Printer{done: map[int]bool{}, decls: map[string]Sort{}, funs: map[string]string{}}
}

func bvLit(v uint64, w int) string {
	if w%4 == 0 {
		return fmt.Sprintf("#x%0*x", w/4, v&mask(w))
	}
	return fmt.Sprintf("#b%0*b", w, v&mask(w))
}

func smtName(n string) string { return "|" + n + "|" }

// collect walks t, emitting define-funs for shared closed composite subterms; returns the inline text of t.
func (p *Printer) ref(t *Term) string {
	switch t.Op {
	case "true", "false":
		return t.Op
	case "bvconst":
		return bvLit(t.Val, t.Sort.Width())
	case "intconst":
		v := int64(t.Val)
		if v < 0 {
			return fmt.Sprintf("(- %d)", -v)
		}
		return strconv.FormatInt(v, 10)
	case "var":
		if t.Sort == "RoundingMode" {
			return t.Name
		}
		if _, ok := p.decls[t.Name]; !ok {
			p.decls[t.Name] = t.Sort
			p.declOrd = append(p.declOrd, t.Name)
		}
		return smtName(t.Name)
	case "bound":
		return smtName(t.Name)
	case "ref":
		n := "a" + strconv.Itoa(t.I1)
		if _, ok := p.decls[n]; !ok {
			p.decls[n] = SInt
			p.declOrd = append(p.declOrd, n)
		}
		return fmt.Sprintf("(+ |%s| %d)", n, t.Val)
	}
	if t.hasBound {
		return p.inline(t)
	}
	name := "t" + strconv.Itoa(t.ID)
	if !p.done[t.ID] {
		body := p.inline(t)
		p.done[t.ID] = true
		fmt.Fprintf(&p.sb, "(define-fun %s () %s %s)\n", name, t.Sort, body)
	}
	return name
}

func (p *Printer) inline(t *Term) string {
	args := make([]string, len(t.Args))
	for i, a := range t.Args {
		args[i] = p.ref(a)
	}
	j := strings.Join(args, " ")
	switch t.Op {
	case "extract":
		return fmt.Sprintf("((_ extract %d %d) %s)", t.I1, t.I2, j)
	case "zero_extend", "sign_extend":
		return fmt.Sprintf("((_ %s %d) %s)", t.Op, t.I1, j)
	case "constarray":
		return fmt.Sprintf("((as const %s) %s)", t.Sort, j)
	case "app":
		if _, ok := p.funs[t.Name]; !ok {
			var as []string
			for _, a := range t.Args {
				as = append(as, string(a.Sort))
			}
			p.funs[t.Name] = fmt.Sprintf("(declare-fun %s (%s) %s)", smtName(t.Name), strings.Join(as, " "), t.Sort)
			p.funOrd = append(p.funOrd, t.Name)
		}
		if len(t.Args) == 0 {
			return smtName(t.Name)
		}
		return fmt.Sprintf("(%s %s)", smtName(t.Name), j)
	case "lambda":
		var bs []string
		for _, b := range t.Bound {
			bs = append(bs, fmt.Sprintf("(%s %s)", smtName(b.Name), b.Sort))
		}
		p.sawLambda = true
		if p.noLambda && !t.hasBound && len(t.Bound) == 1 {
			// a named array constant defined pointwise by a triggered axiom
			n := fmt.Sprintf("lam%d", t.ID)
			if _, ok := p.decls[n]; !ok {
				p.decls[n] = t.Sort
				p.declOrd = append(p.declOrd, n)
				b := smtName(t.Bound[0].Name)
				p.lamAxioms = append(p.lamAxioms, fmt.Sprintf("(assert (forall (%s) (! (= (select %s %s) %s) :pattern ((select %s %s)))))", bs[0], smtName(n), b, args[0], smtName(n), b))
			}
			return smtName(n)
		}
		return fmt.Sprintf("(lambda (%s) %s)", strings.Join(bs, " "), args[0])
	case "forall":
		var bs []string
		for _, b := range t.Bound {
			bs = append(bs, fmt.Sprintf("(%s %s)", smtName(b.Name), b.Sort))
		}
		if len(args) > 1 {
			if len(t.Bound) == 1 {
				// one bound variable: every pattern alone binds it, so they are alternatives
				var ps []string
				for _, a := range args[1:] {
					ps = append(ps, ":pattern ("+a+")")
				}
				return fmt.Sprintf("(forall (%s) (! %s %s))", strings.Join(bs, " "), args[0], strings.Join(ps, " "))
			}
			return fmt.Sprintf("(forall (%s) (! %s :pattern (%s)))", strings.Join(bs, " "), args[0], strings.Join(args[1:], " "))
		}
		return fmt.Sprintf("(forall (%s) %s)", strings.Join(bs, " "), args[0])
	}
	if strings.HasPrefix(t.Op, "fp:") {
		return fmt.Sprintf("(%s %s)", strings.TrimPrefix(t.Op, "fp:"), j)
	}
	return fmt.Sprintf("(%s %s)", t.Op, j)
}

// Query builds a complete SMT-LIB script asserting all given formulas; get lists terms whose values are wanted.
func (p *Printer) Query(asserts []*Term, get []*Term) string {
	var as []string
	for _, a := range asserts {
		as = append(as, p.ref(a))
	}
	var gs []string
	for _, g := range get {
		gs = append(gs, p.ref(g))
	}
	var out strings.Builder
	out.WriteString("(set-option :produce-models true)\n(set-logic ALL)\n")
	for _, n := range p.declOrd {
		fmt.Fprintf(&out, "(declare-const %s %s)\n", smtName(n), p.decls[n])
	}
	for _, n := range p.funOrd {
		out.WriteString(p.funs[n])
		out.WriteByte('\n')
	}
	out.WriteString(p.sb.String())
	for _, a := range p.lamAxioms {
		out.WriteString(a)
		out.WriteByte('\n')
	}
	for _, a := range as {
		fmt.Fprintf(&out, "(assert %s)\n", a)
	}
	out.WriteString("(check-sat)\n")
	if len(gs) > 0 {
		fmt.Fprintf(&out, "(get-value (%s))\n", strings.Join(gs, " "))
	}
	return out.String()
}

// FreeVars returns the sorted names of free variables of a set of terms.
func FreeVars(ts ...*Term) []*Term {
	seen := map[int]bool{}
	var out []*Term
	var walk func(t *Term)
	walk = func(t *Term) {
		if seen[t.ID] {
			return
		}
		seen[t.ID] = true
		if t.Op == "var" {
			out = append(out, t)
		}
		for _, a := range t.Args {
			walk(a)
		}
	}
	for _, t := range ts {
		walk(t)
	}
	sort.Slice(out, func(i, j int) bool { return out[i].Name < out[j].Name })
	return out
}

func TermSize(ts ...*Term) int {
	seen := map[int]bool{}
	var walk func(t *Term)
	walk = func(t *Term) {
		if seen[t.ID] {
			return
		}
		seen[t.ID] = true
		for _, a := range t.Args {
			walk(a)
		}
	}
	for _, t := range ts {
		walk(t)
	}
	return len(seen)
}
