package main

// Replay: turn a solver model into a concrete in-package Go test that runs the REAL function, and evaluate the
// violated clause (the same Go spec function the verifier translated) on the outcome.

import (
	"encoding/json"
	"fmt"
	"go/types"
	"os"
	"os/exec"
	"path/filepath"
	"regexp"
	"sort"
	"strconv"
	"strings"

	"golang.org/x/tools/go/ssa"
)

func parseBV(s string) (uint64, bool) {
	s = strings.TrimSpace(s)
	switch {
	case strings.HasPrefix(s, "#x"):
		v, err := strconv.ParseUint(s[2:], 16, 64)
		return v, err == nil
	case strings.HasPrefix(s, "#b"):
		v, err := strconv.ParseUint(s[2:], 2, 64)
		return v, err == nil
	case s == "true":
		return 1, true
	case s == "false":
		return 0, true
	case strings.HasPrefix(s, "(- "):
		v, err := strconv.ParseInt(strings.TrimSuffix(s[3:], ")"), 10, 64)
		return uint64(-v), err == nil
	case strings.HasPrefix(s, "(_ bv"):
		f := strings.Fields(s)
		v, err := strconv.ParseUint(strings.TrimPrefix(f[1], "bv"), 10, 64)
		return v, err == nil
	}
	v, err := strconv.ParseInt(s, 10, 64)
	return uint64(v), err == nil
}

type replayGen struct {
	model   map[string]string
	pkg     *types.Package
	imports map[string]bool
	ex      *Exec
	fail    string
	streams bool     // the test needs the stream harness
	approx  []string // what the materialisation approximated
}

// streamExpr: &verifStream{...} built from the model's ghost stream state of the value called name
func (g *replayGen) streamExpr(name string) string {
	pos, _ := g.get(name + ".rd.pos")
	n, _ := g.get(name + ".rd.len")
	if n < pos {
		n = pos // a stream the function never reads from: its read side is unconstrained in the model
	}
	if n-pos > replayMaxLen {
		g.fail = fmt.Sprintf("model stream %s too large to materialise (pos=%d len=%d)", name, pos, n)
		return "nil"
	}
	var bs []string
	for i := uint64(0); i < n-pos && i < streamModelBytes; i++ {
		b, _ := g.get(fmt.Sprintf("%s.rd[%d]", name, i))
		bs = append(bs, strconv.Itoa(int(b)))
	}
	et, _ := g.get(name + ".rd.err.tid")
	er, _ := g.get(name + ".rd.err.ref")
	kind := 2 // some other transport error
	if t, ok := g.get("$io.EOF.tid"); ok {
		if r, _ := g.get("$io.EOF.ref"); t == et && r == er {
			kind = 0
		}
	}
	if t, ok := g.get("$io.ErrUnexpectedEOF.tid"); ok {
		if r, _ := g.get("$io.ErrUnexpectedEOF.ref"); t == et && r == er {
			kind = 1
		}
	}
	wl, _ := g.get(name + ".wr.len")
	lim, _ := g.get(name + ".wr.limit")
	room := int64(-1) // unlimited
	if lim < wl {
		room = 0
	} else if lim-wl < replayMaxLen {
		room = int64(lim - wl)
	}
	return fmt.Sprintf("verifNewStream(%d, %d, []byte{%s}, %d, %d, %d)", pos, n-pos, strings.Join(bs, ","), kind, wl, room)
}

func (g *replayGen) get(name string) (uint64, bool) {
	s, ok := g.model[name]
	if !ok {
		return 0, false
	}
	return parseBV(s)
}

func (g *replayGen) qual(p *types.Package) string {
	if p == g.pkg {
		return ""
	}
	g.imports[p.Path()] = true
	return p.Name()
}

func (g *replayGen) typeStr(t types.Type) string { return types.TypeString(t, g.qual) }

const replayMaxLen = 1 << 25

// expr builds a Go expression of type t for the model value rooted at name.
func (g *replayGen) expr(name string, t types.Type, depth int) string {
	if gs, ok := ghostStruct(t); ok {
		switch gs {
		case "time.Time":
			v, _ := g.get(name + ".$0")
			g.imports["time"] = true
			return fmt.Sprintf("time.Unix(0, %d)", int64(v))
		}
		return g.typeStr(t) + "{}"
	}
	switch u := t.Underlying().(type) {
	case *types.Basic:
		switch {
		case u.Info()&types.IsBoolean != 0:
			v, _ := g.get(name)
			return fmt.Sprintf("%s(%v)", g.typeStr(t), v != 0)
		case u.Info()&types.IsInteger != 0:
			v, _ := g.get(name)
			if isSigned(t) {
				w := scalarSort(t).Width()
				return fmt.Sprintf("%s(%d)", g.typeStr(t), signExt(v, w))
			}
			return fmt.Sprintf("%s(%d)", g.typeStr(t), v)
		case u.Info()&types.IsFloat != 0:
			v, _ := g.get(name)
			g.imports["math"] = true
			return fmt.Sprintf("%s(math.Float64frombits(%#x))", g.typeStr(t), v)
		case u.Info()&types.IsString != 0:
			n, _ := g.get(name + ".slen")
			if n > modelBytes {
				n = modelBytes
			}
			var bs []string
			for i := uint64(0); i < n; i++ {
				b, _ := g.get(fmt.Sprintf("%s[%d]", name, i))
				bs = append(bs, strconv.Itoa(int(b)))
			}
			return fmt.Sprintf("%s(string([]byte{%s}))", g.typeStr(t), strings.Join(bs, ","))
		}
	case *types.Slice:
		arr, _ := g.get(name + ".arr")
		n, _ := g.get(name + ".len")
		c, _ := g.get(name + ".cap")
		if arr == 0 {
			return fmt.Sprintf("%s(nil)", g.typeStr(t))
		}
		if c > replayMaxLen && n <= replayMaxLen {
			c = n // an unconstrained capacity: the smallest legal one
		}
		if n > replayMaxLen || c > replayMaxLen || c < n {
			g.fail = fmt.Sprintf("model slice %s too large to materialise (len=%d cap=%d)", name, n, c)
			return "nil"
		}
		if !(isScalar(u.Elem()) && scalarSort(u.Elem()) == BV(8)) {
			g.fail = "cannot materialise slice of " + u.Elem().String()
			return "nil"
		}
		var bs []string
		for i := uint64(0); i < n && i < modelBytes; i++ {
			b, _ := g.get(fmt.Sprintf("%s[%d]", name, i))
			bs = append(bs, strconv.Itoa(int(b)))
		}
		return fmt.Sprintf("verifMkBytes(%d, %d, []byte{%s})", n, c, strings.Join(bs, ","))
	case *types.Struct:
		var fs []string
		for i := 0; i < u.NumFields(); i++ {
			f := u.Field(i)
			if gs, isGhost := ghostStruct(f.Type()); isGhost && gs != "time.Time" {
				continue
			}
			fs = append(fs, fmt.Sprintf("%s: %s", f.Name(), g.expr(name+"."+f.Name(), f.Type(), depth)))
		}
		return fmt.Sprintf("%s{%s}", g.typeStr(t), strings.Join(fs, ", "))
	case *types.Pointer:
		r, _ := g.get(name)
		if r == 0 {
			return fmt.Sprintf("(%s)(nil)", g.typeStr(t))
		}
		if t.String() == "*bufio.Reader" {
			g.streams = true
			return "verifBufReader(" + g.streamExpr(name) + ")"
		}
		if t.String() == "*bufio.Writer" {
			g.streams = true
			return "verifBufWriter(" + g.streamExpr(name) + ")"
		}
		if depth <= 0 {
			return fmt.Sprintf("new(%s)", g.typeStr(u.Elem()))
		}
		if _, ok := u.Elem().Underlying().(*types.Struct); ok {
			return "&" + g.expr(name+"->", u.Elem(), depth-1)
		}
		return fmt.Sprintf("func() %s { x := %s; return &x }()", g.typeStr(t), g.expr(name+"->", u.Elem(), depth-1))
	case *types.Interface:
		tid, _ := g.get(name + ".tid")
		if tid == 0 {
			return fmt.Sprintf("%s(nil)", g.typeStr(t))
		}
		if isStreamType(t) {
			// a test double that plays the model's ghost streams: the unread input, then the terminal error; output accepted
			// up to the model's limit
			g.streams = true
			return g.streamExpr(name)
		}
		if t.String() == "error" {
			g.imports["errors"] = true
			return "errors.New(\"verif: some error value of the model\")"
		}
		g.fail = "cannot materialise interface value " + name
		return "nil"
	case *types.Map:
		r, _ := g.get(name + ".ref")
		if r == 0 {
			return fmt.Sprintf("%s(nil)", g.typeStr(t))
		}
		g.approx = append(g.approx, name+": a non-nil map is materialised empty")
		return fmt.Sprintf("%s{}", g.typeStr(t))
	case *types.Chan:
		r, _ := g.get(name)
		if r == 0 {
			return fmt.Sprintf("%s(nil)", g.typeStr(t))
		}
		// the 1-slot channels of this library are locks: materialised free (holding their token)
		g.approx = append(g.approx, name+": a channel is materialised as a free 1-slot lock")
		return fmt.Sprintf("func() %s { ch := make(%s, 1); var z %s; ch <- z; return ch }()", g.typeStr(t), g.typeStr(t), g.typeStr(u.Elem()))
	case *types.Signature:
		r, _ := g.get(name)
		if r == 0 {
			return fmt.Sprintf("(%s)(nil)", g.typeStr(t))
		}
		g.imports["reflect"] = true
		g.approx = append(g.approx, name+": a function value is materialised as a stub returning zero values")
		return fmt.Sprintf("reflect.MakeFunc(reflect.TypeOf((%s)(nil)), func(a []reflect.Value) []reflect.Value { ft := reflect.TypeOf((%s)(nil)); out := make([]reflect.Value, ft.NumOut()); for i := range out { out[i] = reflect.Zero(ft.Out(i)) }; return out }).Interface().(%s)", g.typeStr(t), g.typeStr(t), g.typeStr(t))
	case *types.Array:
		if isScalar(u.Elem()) && u.Len() <= 64 {
			return fmt.Sprintf("%s{}", g.typeStr(t))
		}
	}
	g.fail = "cannot materialise value of type " + t.String()
	return "nil"
}

// verifHarnessSrc: test doubles that play the ghost streams of a counterexample, and run-time meanings of the ghost
// accessors the contracts use (only inside replays; the overlay adds this file to the package).
const verifHarnessSrc = `//go:build verif

package %s

import (
	"bufio"
	"errors"
	"io"
	"net"
	"time"
)

type verifStream struct {
	base, consumed, kind int
	in                   []byte
	wbase, room          int
	w                    []byte
	br                   *bufio.Reader
	bw                   *bufio.Writer
	oldPos, oldWrLen     int
}

var verifErrTransport = errors.New("verif: transport error")
var verifAll []*verifStream
var verifByKey = map[interface{}]*verifStream{}
var verifIOErr, verifOldIOErr error

func verifNewStream(pos, total int, head []byte, kind int, wbase int, room int) *verifStream {
	in := make([]byte, total)
	copy(in, head)
	s := &verifStream{base: pos, in: in, kind: kind, wbase: wbase, room: room}
	verifAll = append(verifAll, s)
	return s
}

func (s *verifStream) termErr() error {
	switch s.kind {
	case 0:
		return io.EOF
	case 1:
		return io.ErrUnexpectedEOF
	}
	return verifErrTransport
}

func verifRecord(err error) {
	if verifIOErr == nil {
		verifIOErr = err
	}
}

func (s *verifStream) Read(p []byte) (int, error) {
	if len(p) == 0 {
		return 0, nil
	}
	if s.consumed >= len(s.in) {
		verifRecord(s.termErr())
		return 0, s.termErr()
	}
	n := copy(p, s.in[s.consumed:])
	s.consumed += n
	return n, nil
}

func (s *verifStream) Write(p []byte) (int, error) {
	if s.room < 0 || len(s.w)+len(p) <= s.room {
		s.w = append(s.w, p...)
		return len(p), nil
	}
	k := s.room - len(s.w)
	if k < 0 {
		k = 0
	}
	s.w = append(s.w, p[:k]...)
	verifRecord(verifErrTransport)
	return k, verifErrTransport
}

func (s *verifStream) Close() error                       { return nil }
func (s *verifStream) LocalAddr() net.Addr                { return nil }
func (s *verifStream) RemoteAddr() net.Addr               { return nil }
func (s *verifStream) SetDeadline(t time.Time) error      { return nil }
func (s *verifStream) SetReadDeadline(t time.Time) error  { return nil }
func (s *verifStream) SetWriteDeadline(t time.Time) error { return nil }

func verifBufReader(s *verifStream) *bufio.Reader {
	r := bufio.NewReaderSize(s, 16)
	s.br = r
	verifByKey[r] = s
	return r
}

func verifBufWriter(s *verifStream) *bufio.Writer {
	w := bufio.NewWriterSize(s, 16)
	s.bw = w
	verifByKey[w] = s
	return w
}

func verifLookup(x interface{}) *verifStream {
	if s, ok := x.(*verifStream); ok {
		return s
	}
	if s, ok := verifByKey[x]; ok {
		return s
	}
	panic("ghost: not a replay stream")
}

func (s *verifStream) pos() int {
	p := s.base + s.consumed
	if s.br != nil {
		p -= s.br.Buffered()
	}
	return p
}

func (s *verifStream) wrLen() int {
	n := s.wbase + len(s.w)
	if s.bw != nil {
		n += s.bw.Buffered()
	}
	return n
}

func verifSnapshot() {
	for _, s := range verifAll {
		s.oldPos, s.oldWrLen = s.pos(), s.wrLen()
	}
	verifOldIOErr = verifIOErr
}

func verifGhost_rd_pos(r interface{}) int     { return verifLookup(r).pos() }
func verifGhost_old_rd_pos(r interface{}) int { return verifLookup(r).oldPos }
func verifGhost_rd_len(r interface{}) int     { s := verifLookup(r); return s.base + len(s.in) }
func verifGhost_rd_err(r interface{}) error   { return verifLookup(r).termErr() }
func verifGhost_rd_at(r interface{}, i int) byte {
	s := verifLookup(r)
	if k := i - s.base; k >= 0 && k < len(s.in) {
		return s.in[k]
	}
	return 0
}
func verifGhost_wr_len(w interface{}) int     { return verifLookup(w).wrLen() }
func verifGhost_old_wr_len(w interface{}) int { return verifLookup(w).oldWrLen }
func verifGhost_wr_limit(w interface{}) int {
	s := verifLookup(w)
	if s.room < 0 {
		return 1 << 62
	}
	return s.wbase + s.room
}
func verifGhost_wr_at(w interface{}, i int) byte {
	s := verifLookup(w)
	if s.bw != nil && s.bw.Buffered() > 0 {
		panic("ghost: output still buffered")
	}
	if k := i - s.wbase; k >= 0 && k < len(s.w) {
		return s.w[k]
	}
	return 0
}
func verifGhost_ioerr() error     { return verifIOErr }
func verifGhost_old_ioerr() error { return verifOldIOErr }
func verifGhost_root(err error) error {
	for i := 0; i < 64 && err != nil; i++ {
		c, ok := err.(interface{ Cause() error })
		if !ok {
			break
		}
		err = c.Cause()
	}
	return err
}
` + ""

var ghostRuntime = map[string]bool{"rd_pos": true, "old_rd_pos": true, "rd_len": true, "rd_err": true, "rd_at": true, "wr_len": true, "old_wr_len": true,
	"wr_limit": true, "wr_at": true, "ioerr": true, "old_ioerr": true, "root": true}

var ghostDeclRe = regexp.MustCompile(`(?m)^func ghost_(\w+)\(([^)]*)\)\s*(\S+)\s*\{ panic\("ghost"\) \}`)

// transformContracts gives the ghost accessors of a contract file their replay-time meaning (the stream harness).
func transformContracts(src string) string {
	return ghostDeclRe.ReplaceAllStringFunc(src, func(m string) string {
		sm := ghostDeclRe.FindStringSubmatch(m)
		if !ghostRuntime[sm[1]] {
			return m
		}
		var names []string
		for _, p := range strings.Split(sm[2], ",") {
			if f := strings.Fields(strings.TrimSpace(p)); len(f) > 0 {
				names = append(names, f[0])
			}
		}
		return fmt.Sprintf("func ghost_%s(%s) %s { return verifGhost_%s(%s) }", sm[1], sm[2], sm[3], sm[1], strings.Join(names, ", "))
	})
}

// usesOldSpec: does the spec function (transitively) call a two-state oldspec_* function? Such a clause cannot be
// evaluated after the call at run time.
func usesOldSpec(fn *ssa.Function, seen map[*ssa.Function]bool) bool {
	if fn == nil || seen[fn] || fn.Blocks == nil {
		return false
	}
	seen[fn] = true
	for _, b := range fn.Blocks {
		for _, ins := range b.Instrs {
			var callee *ssa.Function
			switch x := ins.(type) {
			case *ssa.Call:
				callee = x.Call.StaticCallee()
			case *ssa.MakeClosure:
				callee, _ = x.Fn.(*ssa.Function)
			}
			if callee == nil {
				continue
			}
			if strings.HasPrefix(callee.Name(), "oldspec_") || usesOldSpec(callee, seen) {
				return true
			}
		}
	}
	return false
}

type replayVerdict struct {
	Property   string            `json:"property"`
	Obligation string            `json:"obligation"`
	Kind       string            `json:"kind"`
	Position   string            `json:"position"`
	Verdict    string            `json:"verdict"`
	Solver     string            `json:"solver"`
	Model      map[string]string `json:"model,omitempty"`
	Output     string            `json:"solver_output"`
	Replay     string            `json:"replay"` // reproduced / not-reproduced / not-available
	ReplayLog  string            `json:"replay_log,omitempty"`
	TestSource string            `json:"test_source,omitempty"`
	Pkg        string            `json:"package,omitempty"`
	Note       string            `json:"note,omitempty"`
}

func findFn(ex *Exec, name string) *FnSpec {
	for _, sp := range ex.specs.list {
		if fnName(sp.Fn) == name {
			return sp
		}
	}
	return nil
}

// replayResult writes the replay file and, when a model is available, runs it against the real code.
func replayResult(verif, repo, prop string, r *Result, ex *Exec) (string, bool) {
	dir := filepath.Join(verif, "replays", prop)
	os.MkdirAll(dir, 0o755)
	path := filepath.Join(dir, sanitize(r.Group.Name)+".json")
	rv := replayVerdict{Property: prop, Obligation: r.Group.Name, Kind: r.Group.Kind, Position: r.Group.Pos, Verdict: r.Verdict, Solver: r.Solver,
		Model: r.Model, Output: truncate(r.Output, 3000), Replay: "not-available"}
	reproduced := false
	if r.Verdict == "sat" && len(r.Model) > 0 {
		if sp := findFn(ex, r.Group.Fn); sp != nil {
			src, pkgDir, err := genReplayTest(ex, sp, r)
			if err != nil {
				rv.Note = "replay generator: " + err.Error()
			} else {
				rv.TestSource = src
				rv.Pkg = pkgDir
				log, ok := runReplay(repo, pkgDir, src, prop)
				rv.ReplayLog = truncate(log, 3000)
				if ok {
					rv.Replay = "reproduced"
					reproduced = true
				} else {
					rv.Replay = "not-reproduced"
				}
			}
		}
	} else if r.Verdict != "sat" {
		rv.Note = "the solvers returned no model (" + r.Verdict + "); the obligation is reported as failed without a concrete input"
	}
	b, _ := json.MarshalIndent(rv, "", " ")
	os.WriteFile(path, b, 0o644)
	return path, reproduced
}

func specParamExpr(fn *ssa.Function, target *ssa.Function, haveResults bool) ([]string, error) {
	var out []string
	sig := target.Signature.Results()
	for _, p := range fn.Params {
		n := p.Name()
		found := false
		for _, tp := range target.Params {
			if tp.Name() == n {
				out = append(out, "in_"+n)
				found = true
			}
			if "old_"+tp.Name() == n {
				out = append(out, "old_"+tp.Name())
				found = true
			}
		}
		if !found && haveResults {
			for i := 0; i < sig.Len(); i++ {
				if sig.At(i).Name() == n || fmt.Sprintf("ret%d", i) == n {
					out = append(out, fmt.Sprintf("res%d", i))
					found = true
				}
			}
		}
		if !found {
			return nil, fmt.Errorf("cannot bind spec parameter %s", n)
		}
	}
	return out, nil
}

func genReplayTest(ex *Exec, sp *FnSpec, r *Result) (src string, pkgDir string, err error) {
	fn := sp.Fn
	pkg := fn.Package()
	if pkg == nil {
		return "", "", fmt.Errorf("no package")
	}
	g := &replayGen{model: r.Model, pkg: pkg.Pkg, imports: map[string]bool{"fmt": true, "testing": true}, ex: ex}
	var sb strings.Builder
	var decl []string
	for _, p := range fn.Params {
		decl = append(decl, fmt.Sprintf("\tin_%s := %s\n\t_ = in_%s\n", p.Name(), g.expr(p.Name(), p.Type(), 2), p.Name()))
	}
	if g.fail != "" {
		return "", "", fmt.Errorf("%s", g.fail)
	}
	for _, d := range decl {
		sb.WriteString(d)
	}
	// precondition
	for _, c := range sp.Requires {
		args, err := specParamExpr(c.SpecFn, fn, false)
		if err != nil {
			return "", "", err
		}
		fmt.Fprintf(&sb, "\t{\n\t\tpre, evaluated := false, false\n\t\tfunc() {\n\t\t\tdefer func() { recover() }()\n\t\t\tpre = %s(%s)\n\t\t\tevaluated = true\n\t\t}()\n\t\tif !evaluated {\n\t\t\tfmt.Println(\"REPLAY-RESULT: precondition-not-evaluable %s\")\n\t\t\treturn\n\t\t}\n\t\tif !pre {\n\t\t\tfmt.Println(\"REPLAY-RESULT: precondition-false %s\")\n\t\t\treturn\n\t\t}\n\t}\n", c.SpecFn.Name(), strings.Join(args, ", "), c.SpecFn.Name(), c.SpecFn.Name())
	}
	// old snapshots
	for _, p := range fn.Params {
		if pt, ok := p.Type().Underlying().(*types.Pointer); ok {
			if _, isS := pt.Elem().Underlying().(*types.Struct); isS {
				fmt.Fprintf(&sb, "\tvar old_%s %s\n\tif in_%s != nil {\n\t\told_%s = *in_%s\n\t}\n\t_ = old_%s\n", p.Name(), g.typeStr(pt.Elem()), p.Name(), p.Name(), p.Name(), p.Name())
			}
		} else if _, ok := p.Type().Underlying().(*types.Slice); ok {
			fmt.Fprintf(&sb, "\told_%s := append(%s(nil), in_%s...)\n\t_ = old_%s\n", p.Name(), g.typeStr(p.Type()), p.Name(), p.Name())
		}
	}
	// the call
	sig := fn.Signature
	var resNames, resDecl []string
	for i := 0; i < sig.Results().Len(); i++ {
		resNames = append(resNames, fmt.Sprintf("res%d", i))
		resDecl = append(resDecl, fmt.Sprintf("\tvar res%d %s\n\t_ = res%d\n", i, g.typeStr(sig.Results().At(i).Type()), i))
	}
	for _, d := range resDecl {
		sb.WriteString(d)
	}
	var callee string
	var argNames []string
	params := fn.Params
	if sig.Recv() != nil {
		callee = "in_" + params[0].Name() + "." + fn.Name()
		params = params[1:]
	} else {
		callee = fn.Name()
	}
	for i, p := range params {
		a := "in_" + p.Name()
		if sig.Variadic() && i == len(params)-1 {
			a += "..."
		}
		argNames = append(argNames, a)
	}
	assign := ""
	if len(resNames) > 0 {
		assign = strings.Join(resNames, ", ") + " = "
	}
	if g.streams {
		sb.WriteString("\tverifSnapshot()\n")
	}
	fmt.Fprintf(&sb, "\tvar panicked interface{}\n\tfunc() {\n\t\tdefer func() { panicked = recover() }()\n\t\t%s%s(%s)\n\t}()\n", assign, callee, strings.Join(argNames, ", "))
	kind := r.Group.Kind
	sb.WriteString("\tif panicked != nil {\n\t\tfmt.Printf(\"REPLAY-RESULT: panic: %v\\n\", panicked)\n\t\treturn\n\t}\n")
	switch {
	case kind == "ensures":
		for _, c := range sp.Ensures {
			if !strings.HasSuffix(r.Group.Name, "#ensures."+strings.Join(c.Labels, ",")) {
				continue
			}
			args, err := specParamExpr(c.SpecFn, fn, true)
			if err != nil {
				return "", "", err
			}
			if usesOldSpec(c.SpecFn, map[*ssa.Function]bool{}) {
				sb.WriteString("\tfmt.Println(\"REPLAY-RESULT: clause-not-evaluable (two-state clause: oldspec_* has no run-time meaning)\")\n")
				continue
			}
			fmt.Fprintf(&sb, "\tok, evaluated := false, false\n\tfunc() {\n\t\tdefer func() { recover() }()\n\t\tok = %s(%s)\n\t\tevaluated = true\n\t}()\n\tif !evaluated {\n\t\tfmt.Println(\"REPLAY-RESULT: clause-not-evaluable (ghost state or undefined spec)\")\n\t\treturn\n\t}\n\tfmt.Println(\"REPLAY-RESULT: clause\", ok)\n", c.SpecFn.Name(), strings.Join(args, ", "))
		}
	case kind == "lemma":
		sb.WriteString("\tfmt.Println(\"REPLAY-RESULT: clause\", res0)\n")
	default:
		sb.WriteString("\tfmt.Println(\"REPLAY-RESULT: returned-normally\")\n")
	}
	var imps []string
	for i := range g.imports {
		imps = append(imps, fmt.Sprintf("\t%q", i))
	}
	sort.Strings(imps)
	src = fmt.Sprintf(`package %s

import (
%s
)

func verifMkBytes(n, c int, head []byte) []byte {
	b := make([]byte, n, c)
	copy(b, head)
	return b
}

func TestVerifReplay(t *testing.T) {
%s}
`, pkg.Pkg.Name(), strings.Join(imps, "\n"), sb.String())
	rel := strings.TrimPrefix(pkg.Pkg.Path(), "github.com/ossrs/go-oryx-lib")
	return src, "." + rel, nil
}

// runReplay executes the generated test inside the real package through a build overlay (the repository is not
// written to). It returns the log and whether the violation was reproduced.
func runReplay(repo, pkgDir, src, prop string) (string, bool) {
	tmp, err := os.MkdirTemp("", "govc-replay-")
	if err != nil {
		return err.Error(), false
	}
	defer os.RemoveAll(tmp)
	testFile := filepath.Join(tmp, "verif_replay_test.go")
	os.WriteFile(testFile, []byte(src), 0o644)
	target := filepath.Join(repo, pkgDir, "zz_verif_replay_test.go")
	repl := map[string]string{target: testFile}
	// the stream harness, and the contract file with its ghost accessors given their replay-time meaning
	if m := regexp.MustCompile(`(?m)^package (\w+)`).FindStringSubmatch(src); m != nil {
		hf := filepath.Join(tmp, "verif_harness.go")
		os.WriteFile(hf, []byte(fmt.Sprintf(verifHarnessSrc, m[1])), 0o644)
		repl[filepath.Join(repo, pkgDir, "zz_verif_harness.go")] = hf
		cfile := filepath.Join(repo, pkgDir, "verif_contracts.go")
		if b, err := os.ReadFile(cfile); err == nil {
			cf := filepath.Join(tmp, "verif_contracts.go")
			os.WriteFile(cf, []byte(transformContracts(string(b))), 0o644)
			repl[cfile] = cf
		}
	}
	ov, _ := json.Marshal(map[string]interface{}{"Replace": repl})
	ovFile := filepath.Join(tmp, "overlay.json")
	os.WriteFile(ovFile, ov, 0o644)
	cmd := exec.Command("go", "test", "-tags", "verif", "-overlay", ovFile, "-vet=off", "-count=1", "-timeout", "60s", "-run", "^TestVerifReplay$", "-v", pkgDir)
	cmd.Dir = repo
	cmd.Env = append(os.Environ(), "GOFLAGS=-mod=mod", "GOPROXY=off", "GOSUMDB=off", "GOTOOLCHAIN=local")
	out, _ := cmd.CombinedOutput()
	log := string(out)
	for _, ln := range strings.Split(log, "\n") {
		if strings.HasPrefix(ln, "REPLAY-RESULT: ") {
			res := strings.TrimPrefix(ln, "REPLAY-RESULT: ")
			switch {
			case strings.HasPrefix(res, "panic:"):
				return log, true
			case res == "clause false":
				return log, true
			default:
				return log, false
			}
		}
	}
	return log, false
}
