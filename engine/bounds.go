package main

import (
	"fmt"
	"os"
	"runtime/debug"
	"sort"
	"strings"
)

var dbgUB = os.Getenv("GOVC_DBG_UB")

// Cheap unsigned upper bounds for bit-vector terms, fed by always-valid facts (type invariants). Used by the
// simplifier to decide comparisons such as (2^64-3 <u len) without calling a solver.

var knownUB = map[int]uint64{}

// boundFact keeps, for every term with a learned bound, the (unsimplified) fact itself: queries that mention the term
// get the fact back as an assumption, since later constructions of the same comparison simplify to true.
var boundFact = map[int]*Term{}

// Only bounds of atoms (input symbols, fresh symbols, values read from memory, uninterpreted applications) are learned:
// those are type invariants of the symbol itself and hold on every path and in every function that mentions it. A
// bound of a compound term (pos-14, off+cap, ...) may have been derived under a path condition (a bounds check that
// passed); it stays an ordinary fact of its state and is never used to simplify terms built elsewhere.
func atomic(t *Term) bool {
	switch t.Op {
	case "var", "select", "app":
		return true
	}
	return false
}

func setUB(t *Term, v uint64) {
	if !atomic(t) {
		return
	}
	if old, ok := knownUB[t.ID]; !ok || v < old {
		if dbgUB != "" && strings.Contains(showTerm(t, 3), dbgUB) {
			fmt.Fprintf(os.Stderr, "SETUB %s <= %x\n%s\n", showTerm(t, 3), v, debug.Stack())
		}
		knownUB[t.ID] = v
		if t.Sort.IsBV() && !t.hasBound {
			boundFact[t.ID] = mk("bvule", SBool, t, BVConst(v, t.Sort.Width()))
			boundTerm[t.ID] = t
		}
	}
}

// boundAtoms: the maximal non-arithmetic subterms of a bounded term (for off+cap: off and cap)
var boundAtoms = map[int][]int{}
var boundTerm = map[int]*Term{}

func atomsOf(t *Term) []int {
	if a, ok := boundAtoms[t.ID]; ok {
		return a
	}
	seen := map[int]bool{}
	var out []int
	var walk func(t *Term)
	walk = func(t *Term) {
		switch t.Op {
		case "bvadd", "bvsub", "bvmul", "extract", "zero_extend", "sign_extend", "concat", "bvneg", "bvand", "bvor", "bvshl", "bvlshr":
			for _, a := range t.Args {
				walk(a)
			}
		case "bvconst", "intconst":
		default:
			if !seen[t.ID] {
				seen[t.ID] = true
				out = append(out, t.ID)
			}
		}
	}
	walk(t)
	boundAtoms[t.ID] = out
	return out
}

// boundFactsFor returns the learned bound facts that speak about the terms occurring in fs: the facts of every
// bounded term that occurs itself, and of every bounded arithmetic combination (off+cap, ...) all of whose operands
// occur (later constructions of such a comparison simplify to true, so the query would otherwise lose the fact).
func boundFactsFor(fs ...*Term) []*Term {
	seen := map[int]bool{}
	var walk func(t *Term)
	walk = func(t *Term) {
		if seen[t.ID] {
			return
		}
		seen[t.ID] = true
		for _, a := range t.Args {
			walk(a)
		}
	}
	for _, f := range fs {
		walk(f)
	}
	var ids []int
	for id := range boundFact {
		ids = append(ids, id)
	}
	sort.Ints(ids)
	var out []*Term
	for _, id := range ids {
		if seen[id] {
			out = append(out, boundFact[id])
			continue
		}
		t := boundTerm[id]
		if t == nil {
			continue
		}
		as := atomsOf(t)
		if len(as) == 0 || len(as) == 1 && as[0] == id {
			continue
		}
		all := true
		for _, a := range as {
			if !seen[a] {
				all = false
				break
			}
		}
		if all {
			out = append(out, boundFact[id])
		}
	}
	return out
}

// ub returns an upper bound of t (as an unsigned number) if one is known.
func ub(t *Term) (uint64, bool) {
	return ubDepth(t, 0)
}

func ubDepth(t *Term, d int) (uint64, bool) {
	if !t.Sort.IsBV() || d > 8 {
		return 0, false
	}
	if t.Op == "bvconst" {
		return t.Val, true
	}
	best, have := knownUB[t.ID]
	upd := func(v uint64) {
		if !have || v < best {
			best, have = v, true
		}
	}
	w := t.Sort.Width()
	if w < 64 {
		upd(mask(w))
	}
	switch t.Op {
	case "bvadd":
		if y := t.Args[1]; y.Op == "bvconst" && w == 64 && y.Val >= 1<<63 {
			// x - c, defined when x >= c
			c := -y.Val
			if a, ok := ubDepth(t.Args[0], d+1); ok && lbDepth(t.Args[0], d+1) >= c {
				upd(a - c)
			}
			break
		}
		a, ok1 := ubDepth(t.Args[0], d+1)
		b, ok2 := ubDepth(t.Args[1], d+1)
		if ok1 && ok2 && a < 1<<62 && b < 1<<62 && (w == 64 || a+b <= mask(w)) {
			upd(a + b)
		}
	case "bvsub":
		if w == 64 {
			if ux, ok := ubDepth(t.Args[0], d+1); ok && lbDepth(t.Args[0], d+1) >= func() uint64 {
				u, ok := ubDepth(t.Args[1], d+1)
				if ok {
					return u
				}
				return ^uint64(0)
			}() {
				upd(ux - lbDepth(t.Args[1], d+1))
			}
		}
	case "zero_extend":
		if a, ok := ubDepth(t.Args[0], d+1); ok {
			upd(a)
		} else {
			upd(mask(t.Args[0].Sort.Width()))
		}
	case "ite":
		a, ok1 := ubDepth(t.Args[1], d+1)
		b, ok2 := ubDepth(t.Args[2], d+1)
		if ok1 && ok2 {
			if a < b {
				a = b
			}
			upd(a)
		}
	case "bvand":
		if a, ok := ubDepth(t.Args[0], d+1); ok {
			upd(a)
		}
		if b, ok := ubDepth(t.Args[1], d+1); ok {
			upd(b)
		}
	case "bvlshr":
		if a, ok := ubDepth(t.Args[0], d+1); ok {
			upd(a)
		}
	case "concat":
		if a, ok := ubDepth(t.Args[0], d+1); ok && w <= 64 {
			lw := t.Args[1].Sort.Width()
			if a < 1<<uint(64-lw-1) {
				upd(a<<uint(lw) | mask(lw))
			}
		}
	}
	return best, have
}

// learnFact records bounds implied by an always-valid fact.
func learnFact(t *Term) {
	switch t.Op {
	case "bvule":
		if v, ok := ub(t.Args[1]); ok {
			setUB(t.Args[0], v)
		}
	case "bvult":
		if v, ok := ub(t.Args[1]); ok && v > 0 {
			setUB(t.Args[0], v-1)
		}
	case "and":
		for _, a := range t.Args {
			learnFact(a)
		}
	}
}

// lb returns a lower bound of t (as an unsigned number); 0 is always valid.
func lb(t *Term) uint64 { return lbDepth(t, 0) }

func lbDepth(t *Term, d int) uint64 {
	if !t.Sort.IsBV() || d > 8 {
		return 0
	}
	switch t.Op {
	case "bvconst":
		return t.Val
	case "bvadd":
		w := t.Sort.Width()
		x, y := t.Args[0], t.Args[1]
		// x + (-c): subtraction of a constant
		if y.Op == "bvconst" && w == 64 && y.Val >= 1<<63 {
			c := -y.Val
			if l := lbDepth(x, d+1); l >= c {
				return l - c
			}
			return 0
		}
		ux, ok1 := ubDepth(x, d+1)
		uy, ok2 := ubDepth(y, d+1)
		if ok1 && ok2 && ux < 1<<62 && uy < 1<<62 && (w == 64 || ux+uy <= mask(w)) {
			return lbDepth(x, d+1) + lbDepth(y, d+1)
		}
	case "bvsub":
		if t.Sort.Width() == 64 {
			x, y := t.Args[0], t.Args[1]
			ux, ok1 := ubDepth(x, d+1)
			uy, ok2 := ubDepth(y, d+1)
			lx, ly := lbDepth(x, d+1), lbDepth(y, d+1)
			if ok2 && lx >= uy {
				return lx - uy // no wrap
			}
			if ok1 && ok2 && ux < ly {
				return -(uy - lx) // always wraps: x - y = 2^64 - (y - x) >= 2^64 - (ub(y) - lb(x))
			}
		}
	case "zero_extend":
		return lbDepth(t.Args[0], d+1)
	case "ite":
		a, b := lbDepth(t.Args[1], d+1), lbDepth(t.Args[2], d+1)
		if a < b {
			return a
		}
		return b
	}
	return 0
}
