package main

// Loop handling: natural loops, invariants, havoc with dynamically discovered modification sets, termination measures.

import (
	"fmt"
	"go/ast"
	"go/types"
	"sort"

	"golang.org/x/tools/go/ssa"
)

type Loop struct {
	header  *ssa.BasicBlock
	body    map[*ssa.BasicBlock]bool
	ordinal int
}

var loopCache = map[*ssa.Function]map[*ssa.BasicBlock]*Loop{}

func loopsOf(fn *ssa.Function) map[*ssa.BasicBlock]*Loop {
	if l, ok := loopCache[fn]; ok {
		return l
	}
	res := map[*ssa.BasicBlock]*Loop{}
	for _, b := range fn.Blocks {
		for _, s := range b.Succs {
			if s.Dominates(b) { // back edge b -> s
				lp := res[s]
				if lp == nil {
					lp = &Loop{header: s, body: map[*ssa.BasicBlock]bool{s: true}}
					res[s] = lp
				}
				var stack []*ssa.BasicBlock
				if !lp.body[b] {
					lp.body[b] = true
					stack = append(stack, b)
				}
				for len(stack) > 0 {
					x := stack[len(stack)-1]
					stack = stack[:len(stack)-1]
					for _, p := range x.Preds {
						if !lp.body[p] {
							lp.body[p] = true
							stack = append(stack, p)
						}
					}
				}
			}
		}
	}
	var hs []*ssa.BasicBlock
	for h := range res {
		hs = append(hs, h)
	}
	sort.Slice(hs, func(i, j int) bool { return hs[i].Index < hs[j].Index })
	for i, h := range hs {
		res[h].ordinal = i
	}
	loopCache[fn] = res
	return res
}

type discCtx struct {
	loop    *Loop
	written map[string]bool
	fr      *ssa.Function
}

func (e *Exec) evalPhis(fr *Frame, b *ssa.BasicBlock, prev *ssa.BasicBlock) map[*ssa.Phi]Value {
	vals := map[*ssa.Phi]Value{}
	if prev == nil {
		return vals
	}
	idx := -1
	for i, p := range b.Preds {
		if p == prev {
			idx = i
		}
	}
	for _, ins := range b.Instrs {
		phi, ok := ins.(*ssa.Phi)
		if !ok {
			break
		}
		vals[phi] = e.val(fr, phi.Edges[idx])
	}
	return vals
}

// enterBlock processes phi nodes and loop headers. done=true means the path ends here.
func (e *Exec) enterBlock(st *State, fr *Frame, b *ssa.BasicBlock, prev *ssa.BasicBlock) ([]Outcome, bool) {
	// discovery run: stop when leaving the loop under discovery
	if d := e.disc; d != nil && d.fr == fr.fn && fr.depth == e.discDepth {
		if !d.loop.body[b] || (b == d.loop.header && prev != nil && d.loop.body[prev]) {
			for k := range st.written {
				d.written[k] = true
			}
			return nil, true
		}
	}
	lp := loopsOf(fr.fn)[b]
	phis := e.evalPhis(fr, b, prev)
	if lp == nil || prev == nil {
		for p, v := range phis {
			fr.env[p] = v
		}
		return nil, false
	}
	sp := e.specs.ForFn(fr.fn)
	var invs []*Clause
	var dec *Clause
	if sp != nil {
		invs = sp.Invariants[lp.ordinal]
		dec = sp.Decreases[lp.ordinal]
	}
	bound := e.unrollBound(fr.fn, lp)
	if bound > 0 {
		// bounded unrolling (labelled bounded in the evidence): no invariant, path ends after `bound` iterations
		rec := fr.loops[b]
		if lp.body[prev] {
			n := 0
			if rec != nil {
				n = len(rec.measure)
			}
			if n >= bound {
				if e.inlineAll == 0 {
					e.obligeNamed(st, fmt.Sprintf("%s#unwind.%d", e.ctxName(fr), lp.ordinal), "unwind", nil, "", False)
					return nil, true
				}
				e.note(fmt.Sprintf("BOUNDED: loop %d of %s unrolled %d times; longer executions are not covered", lp.ordinal, fnName(fr.fn), bound))
				return nil, true
			}
			fr.loops[b] = &loopRec{measure: make([]*Term, n+1)}
		} else {
			fr.loops[b] = &loopRec{}
		}
		for p, v := range phis {
			fr.env[p] = v
		}
		return nil, false
	}
	if lp.body[prev] {
		// back edge: invariant preserved, measure decreased
		f2 := fr.clone()
		for p, v := range phis {
			f2.env[p] = v
		}
		e.checkInvariants(st, f2, lp, invs, "preserved")
		if dec != nil && fr.loops[b] != nil {
			m1 := e.evalMeasure(st, f2, lp, dec)
			m0 := fr.loops[b].measure
			e.obligeNamed(st, fmt.Sprintf("%s#decreases.%d", e.ctxName(fr), lp.ordinal), "decreases", nil, "", lexLess(m1, m0))
		}
		return nil, true
	}
	// entry edge
	for p, v := range phis {
		fr.env[p] = v
	}
	e.checkInvariants(st, fr, lp, invs, "entry")
	// discover modified heaps
	keys := e.discoverModset(st, fr, lp)
	// havoc
	for _, ins := range b.Instrs {
		phi, ok := ins.(*ssa.Phi)
		if !ok {
			break
		}
		v := freshValue("loop."+phi.Comment, phi.Type())
		e.assumeValid(st, phi.Type(), v)
		fr.env[phi] = v
	}
	e.havocHeaps(st, keys)
	st.NewBase()
	e.autoInvariants(st, fr, lp)
	for _, c := range invs {
		t := e.evalSpec(st, fr, c, e.loopEnv(st, fr, lp), false)
		st.Assume(t)
	}
	rec := &loopRec{}
	if dec != nil {
		rec.measure = e.evalMeasure(st, fr, lp, dec)
		var nonneg []*Term
		for _, m := range rec.measure {
			nonneg = append(nonneg, BVSle(BVConst(0, 64), m))
		}
		_ = nonneg
	}
	fr.loops[b] = rec
	if len(invs) == 0 && dec == nil && e.discovery == 0 && e.specMode == 0 {
		e.note(fmt.Sprintf("loop %d of %s has no invariant: only the automatic range/bounds facts are known after havoc", lp.ordinal, fnName(fr.fn)))
	}
	return nil, false
}

func (e *Exec) ctxName(fr *Frame) string {
	if fnName(fr.fn) == e.curFn {
		return e.curFn
	}
	return e.curFn + "@" + fnName(fr.fn)
}

func lexLess(m1, m0 []*Term) *Term {
	// m1 < m0 lexicographically with m0 components >= 0
	if len(m1) == 0 || len(m0) == 0 {
		return False
	}
	res := False
	for i := len(m1) - 1; i >= 0; i-- {
		lt := And(BVSlt(m1[i], m0[i]), BVSle(BVConst(0, 64), m0[i]))
		res = Or(lt, And(Eq(m1[i], m0[i]), res))
	}
	return res
}

func (e *Exec) evalMeasure(st *State, fr *Frame, lp *Loop, dec *Clause) []*Term {
	env := e.loopEnv(st, fr, lp)
	args := e.bindSpecArgs(st, dec.SpecFn, env)
	e.specMode++
	saved := e.specDefs
	savedBase := e.specBase
	if e.specMode == 1 {
		e.specBase = len(st.pc)
	}
	defer func() { e.specBase = savedBase }()
	outs := e.callFunction(st.Clone(), &Frame{fn: nil, depth: 0}, dec.SpecFn, args, nil, 0)
	e.specDefs = saved
	e.specMode--
	if len(outs) != 1 {
		panic(unsupported("decreases measure must be a single-path (mergeable) function: " + dec.SpecFn.Name()))
	}
	var ms []*Term
	for _, r := range outs[0].results {
		ms = append(ms, SignExt(r.(*Term), 64))
	}
	return ms
}

func (e *Exec) checkInvariants(st *State, fr *Frame, lp *Loop, invs []*Clause, when string) {
	if e.discovery > 0 || e.specMode > 0 {
		return
	}
	for _, c := range invs {
		t := e.evalSpec(st, fr, c, e.loopEnv(st, fr, lp), true)
		e.obligeNamed(st, fmt.Sprintf("%s#invariant.%d.%s.%s", e.ctxName(fr), lp.ordinal, c.Name, when), "invariant", nil, "", t)
	}
	// automatic invariants are also proved, not assumed
	f2 := fr
	for i, t := range e.autoInvariantTerms(st, f2, lp) {
		e.obligeNamed(st, fmt.Sprintf("%s#invariant.%d.auto%d.%s", e.ctxName(fr), lp.ordinal, i, when), "invariant", nil, "", t)
	}
}

// autoInvariantTerms: for `for i := range s` loops go/ssa produces phi(-1, i+1) compared with len: -1 <= i < max(len,0).
func (e *Exec) autoInvariantTerms(st *State, fr *Frame, lp *Loop) []*Term {
	var out []*Term
	for _, ins := range lp.header.Instrs {
		phi, ok := ins.(*ssa.Phi)
		if !ok {
			break
		}
		if !isInteger(phi.Type()) {
			continue
		}
		// pattern: one edge is the constant -1 (rangeindex)
		isRange := false
		for _, ed := range phi.Edges {
			if c, ok := ed.(*ssa.Const); ok && c.Value != nil && isSigned(phi.Type()) && c.Int64() == -1 {
				isRange = true
			}
		}
		if !isRange || phi.Comment != "rangeindex" {
			continue
		}
		v := fr.env[phi].(*Term)
		w := v.Sort.Width()
		out = append(out, BVSle(BVConst(^uint64(0), w), v))
		// upper bound: find `t = phi + 1; t < len` in header
		for _, in2 := range lp.header.Instrs {
			if bo, ok := in2.(*ssa.BinOp); ok && bo.X == ssa.Value(phi) {
				for _, in3 := range lp.header.Instrs {
					if cmp, ok := in3.(*ssa.BinOp); ok && cmp.X == ssa.Value(bo) {
						if lv, ok := fr.env[cmp.Y]; ok {
							if lt, ok := lv.(*Term); ok && lt.Sort == v.Sort {
								out = append(out, Or(BVSlt(v, lt), Eq(v, BVConst(^uint64(0), w))))
							}
						}
					}
				}
			}
		}
	}
	return out
}

func (e *Exec) autoInvariants(st *State, fr *Frame, lp *Loop) {
	for _, t := range e.autoInvariantTerms(st, fr, lp) {
		st.Assume(t)
	}
}

func (e *Exec) havocHeaps(st *State, keys []string) {
	for _, k := range keys {
		s, ok := heapSorts[k]
		if !ok {
			continue
		}
		st.heaps[k] = Fresh("Hh:"+k, s)
		st.written[k] = true
	}
}

// discoverModset runs the loop body (all paths, no obligations) until the set of written heap keys is stable.
func (e *Exec) discoverModset(st *State, fr *Frame, lp *Loop) []string {
	keys := map[string]bool{}
	for iter := 0; iter < 6; iter++ {
		s2 := st.Clone()
		f2 := fr.clone()
		for _, ins := range lp.header.Instrs {
			phi, ok := ins.(*ssa.Phi)
			if !ok {
				break
			}
			v := freshValue("disc."+phi.Comment, phi.Type())
			e.assumeValid(s2, phi.Type(), v)
			f2.env[phi] = v
		}
		e.havocHeaps(s2, sortedKeys(keys))
		s2.NewBase()
		s2.written = map[string]bool{}
		d := &discCtx{loop: lp, written: map[string]bool{}, fr: fr.fn}
		savedD, savedDepth := e.disc, e.discDepth
		e.disc, e.discDepth = d, fr.depth
		e.discovery++
		f2.loops[lp.header] = &loopRec{}
		func() {
			defer func() { e.discovery--; e.disc, e.discDepth = savedD, savedDepth }()
			// run the header's non-phi instructions and onwards
			e.runBlock(s2, f2, lp.header, nil, firstNonPhi(lp.header))
		}()
		grew := false
		for k := range d.written {
			if !keys[k] {
				keys[k] = true
				grew = true
			}
		}
		if !grew {
			break
		}
	}
	return sortedKeys(keys)
}

func firstNonPhi(b *ssa.BasicBlock) int {
	for i, ins := range b.Instrs {
		if _, ok := ins.(*ssa.Phi); !ok {
			return i
		}
	}
	return len(b.Instrs)
}

// loopEnv: names visible to invariant / measure functions at a loop head.
func (e *Exec) loopEnv(st *State, fr *Frame, lp *Loop) func(name string, t types.Type) (Value, bool) {
	return func(name string, t types.Type) (Value, bool) {
		for _, ins := range lp.header.Instrs {
			phi, ok := ins.(*ssa.Phi)
			if !ok {
				break
			}
			if phi.Comment == name {
				return fr.env[phi], true
			}
		}
		if v, ok := e.lookupName(st, fr, name, lp.header, t); ok {
			return v, true
		}
		return e.topEnvLookup(st, fr, name, t)
	}
}

// lookupName finds the value of a source-level local variable by scanning DebugRefs of blocks that dominate b.
func (e *Exec) lookupName(st *State, fr *Frame, name string, at *ssa.BasicBlock, want types.Type) (Value, bool) {
	var best ssa.Value
	var bestAddr bool
	for _, b := range fr.fn.Blocks {
		if !(b == at || b.Dominates(at)) {
			continue
		}
		for _, ins := range b.Instrs {
			d, ok := ins.(*ssa.DebugRef)
			if !ok {
				continue
			}
			id, ok := d.Expr.(*ast.Ident)
			if !ok || id.Name != name {
				continue
			}
			if _, have := fr.env[d.X]; !have {
				if _, isC := d.X.(*ssa.Const); !isC {
					if _, isP := d.X.(*ssa.Parameter); !isP {
						continue
					}
				}
			}
			best, bestAddr = d.X, d.IsAddr
		}
	}
	if best == nil {
		// a parameter or local captured by a closure lives in a cell allocated in the entry block: its current value
		if len(fr.fn.Blocks) > 0 {
			for _, ins := range fr.fn.Blocks[0].Instrs {
				if a, ok := ins.(*ssa.Alloc); ok && a.Comment == name && a.Heap {
					if pv, ok := fr.env[a].(*PtrV); ok {
						return st.LoadLoc(e.locOf(pv)), true
					}
				}
			}
		}
		if p, ok := fr.params[name]; ok {
			return p, true
		}
		return nil, false
	}
	v := e.val(fr, best)
	if bestAddr {
		p := v.(*PtrV)
		if pt, ok := want.Underlying().(*types.Pointer); ok && want != nil {
			if l := e.locOf(p); types.Identical(pt.Elem(), l.T) {
				return p, true // the clause asks for the variable's address
			}
		}
		return st.LoadLoc(e.locOf(p)), true
	}
	return v, true
}
