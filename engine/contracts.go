package main

// Contract directives: `//@ ...` comment lines in files built with tag `verif`.
// Clauses are ordinary Go functions (type-checked by the Go compiler, executable in replays) bound to their targets
// by directive comments; their parameters are matched BY NAME to the target's receiver, parameters and results
// (`ret0`, `ret1` for unnamed results), `old_<name>` for the entry value, and local variable names for loop clauses.

import (
	"fmt"
	"go/ast"
	"go/types"
	"sort"
	"strconv"
	"strings"

	"golang.org/x/tools/go/packages"
	"golang.org/x/tools/go/ssa"
	"golang.org/x/tools/go/ssa/ssautil"
)

type Clause struct {
	Name   string // label-ish name (spec function name)
	Labels []string
	SpecFn *ssa.Function
}

type FnSpec struct {
	Target         string
	Fn             *ssa.Function
	Requires       []*Clause
	Ensures        []*Clause
	Invariants     map[int][]*Clause
	Decreases      map[int]*Clause
	Assigns        []string
	HasAssigns     bool
	Trusted        bool
	UnsafeAbstract string // unsafe-abstract <target> <slice param>: stores through unsafe pointers land in that slice's elements (assumed)
	Inline         bool
	NoFrame        bool        // the frame (assigns) of this function is not checked; it cannot be called by contract
	NeverReads     [][2]string // heap-key prefixes the function must not touch at all (owned by another goroutine), with a label
	Iterate        *Clause     // invariant of a caller's loop that calls this method until it fails (ReadAll summarisation)
	Pure           bool        // the result is a function of the arguments and of the heap components named in Reads
	Reads          []string    // heap key prefixes a pure function may read (checked when the function itself is verified)
	Lemma          bool
	AssumedEnsures []*Clause // postconditions assumed at call sites and NOT proved (listed in the evidence as assumptions)
	GhostEnsures   []*Clause // definitions of ghost state this function owns: assumed at call sites, nothing to prove
	Safe           []string  // property labels under which implicit obligations are checked
	Unroll         map[int]int
	CountCalls     map[string]bool      // callees whose calls (from this function) are counted in ghost state
	UnrollComplete map[int]int          // complete unrolling (with an unwinding assertion) when the function is verified by itself
	AtCall         map[string][]*Clause // call-site assertions: callee name -> clauses evaluated just before the call
	PureFuncValues bool                 // calls through function-typed fields are assumed side-effect free (user handlers)
	Thorough       bool                 // checked only in the thorough tier
	Bounded        int                  // >0: bounded stand-in (lemma with callees inlined, loops unrolled to this bound)
	PanicsIff      *Clause
	Fresh          []string // results that are freshly allocated
	Pos            string
}

func (s *FnSpec) hasContract() bool {
	return len(s.Requires)+len(s.Ensures)+len(s.AssumedEnsures) > 0 || s.HasAssigns || s.Trusted || s.Pure
}

// props returns the set of properties the spec has clauses for.
func (s *FnSpec) props() map[string]bool {
	m := map[string]bool{}
	add := func(ls []string) {
		for _, l := range ls {
			m[strings.SplitN(l, ".", 2)[0]] = true
		}
	}
	for _, c := range s.Ensures {
		add(c.Labels)
	}
	for _, cs := range s.Invariants {
		for _, c := range cs {
			add(c.Labels)
		}
	}
	add(s.Safe)
	for _, cs := range s.AtCall {
		for _, c := range cs {
			add(c.Labels)
		}
	}
	if s.PanicsIff != nil {
		add(s.PanicsIff.Labels)
	}
	for _, nr := range s.NeverReads {
		add([]string{nr[1]})
	}
	return m
}

// onlyProp: every ensures clause of the contract is labelled with prop (so prop's own pass verified all of them)
func (s *FnSpec) onlyProp(prop string) bool {
	for _, c := range s.Ensures {
		if !hasProp(c.Labels, prop) {
			return false
		}
	}
	return true
}

type IfaceSpec struct {
	Iface    string // "amf0.Amf0"
	Method   string
	Requires []*Clause
	Ensures  []*Clause
	Assigns  []string
	Pure     bool // the results are a function of the receiver (and its abstract state) and the arguments
}

type SharedDecl struct {
	What  string // "pkg.var" or "pkg.Type.field"
	Guard string // "atomic" or lock path
	Label string
}

// InterfDecl: `//@ interference <field>` on a spec function rely(old, new T) bool. The field may be changed by other
// goroutines whenever this one is at a lock acquisition; every change (theirs and ours) satisfies rely.
type InterfDecl struct {
	Field string
	Rely  *Clause
}

// AtInvoke: `//@ at-invoke <field>.<Method> <labels>` on a spec function over the owner object: it must hold just
// before every call of <Method> through that interface-typed field.
type AtInvoke struct {
	What   string
	Clause *Clause
}

type Contracts struct {
	interf       []*InterfDecl
	ghostWriters []string
	atInvoke     []*AtInvoke
	byFn         map[*ssa.Function]*FnSpec
	list         []*FnSpec
	ifaces       map[string]*IfaceSpec
	shared       []*SharedDecl
	lockChans    []string // field names of 1-slot channels used as mutexes
	errs         []string
	fnIndex      map[string]*ssa.Function // "pkgname:RelString" -> fn
}

func (c *Contracts) ForFn(fn *ssa.Function) *FnSpec {
	if c == nil {
		return nil
	}
	return c.byFn[fn]
}

func (c *Contracts) ForIface(t types.Type, method string) *IfaceSpec {
	if c == nil {
		return nil
	}
	return c.ifaces[typeKey(t)+"."+method]
}

func LoadContracts(prog *ssa.Program, pkgs []*packages.Package) *Contracts {
	c := &Contracts{byFn: map[*ssa.Function]*FnSpec{}, ifaces: map[string]*IfaceSpec{}, fnIndex: map[string]*ssa.Function{}}
	all := ssautil.AllFunctions(prog)
	for fn := range all {
		p := fn.Package()
		if p == nil && fn.Parent() != nil {
			p = fn.Parent().Package()
		}
		if p == nil || !strings.HasPrefix(p.Pkg.Path(), "github.com/ossrs/go-oryx-lib") {
			continue
		}
		if fn.Synthetic != "" && !strings.HasPrefix(fn.Synthetic, "package init") {
			continue
		}
		rel := fn.RelString(p.Pkg)
		c.fnIndex[p.Pkg.Name()+":"+rel] = fn
		// alternative spelling without parentheses for value receivers: (T).M -> T.M
		if strings.HasPrefix(rel, "(") && !strings.HasPrefix(rel, "(*") {
			alt := strings.Replace(strings.TrimPrefix(rel, "("), ")", "", 1)
			c.fnIndex[p.Pkg.Name()+":"+alt] = fn
		}
	}
	packages.Visit(pkgs, nil, func(p *packages.Package) {
		if !strings.HasPrefix(p.PkgPath, "github.com/ossrs/go-oryx-lib") {
			return
		}
		sp := prog.Package(p.Types)
		if sp == nil {
			return
		}
		for _, f := range p.Syntax {
			c.parseFile(prog, p, sp, f)
		}
	})
	sort.Slice(c.list, func(i, j int) bool { return c.list[i].Target < c.list[j].Target })
	return c
}

func (c *Contracts) errorf(format string, a ...interface{}) {
	c.errs = append(c.errs, fmt.Sprintf(format, a...))
}

func directives(cg *ast.CommentGroup, contractFile bool) []string {
	var out []string
	if cg == nil {
		return nil
	}
	for _, cm := range cg.List {
		t := cm.Text
		if contractFile && strings.HasPrefix(t, "// @") { // gofmt rewrites //@ to // @ in doc comments
			t = "//@" + strings.TrimPrefix(t, "// @")
		}
		if strings.HasPrefix(t, "//@") {
			out = append(out, strings.TrimSpace(strings.TrimPrefix(t, "//@")))
		}
	}
	return out
}

func (c *Contracts) spec(pkg *ssa.Package, target string, pos string) *FnSpec {
	fn := c.fnIndex[pkg.Pkg.Name()+":"+target]
	if fn == nil {
		c.errorf("%s: contract target %q not found in package %s", pos, target, pkg.Pkg.Name())
		return nil
	}
	if s, ok := c.byFn[fn]; ok {
		return s
	}
	s := &FnSpec{Target: pkg.Pkg.Name() + "." + target, Fn: fn, Invariants: map[int][]*Clause{}, Decreases: map[int]*Clause{}, Unroll: map[int]int{}, UnrollComplete: map[int]int{}, CountCalls: map[string]bool{}, Pos: pos}
	c.byFn[fn] = s
	c.list = append(c.list, s)
	return s
}

func splitLabels(fs []string) []string {
	var out []string
	for _, f := range fs {
		for _, l := range strings.Split(f, ",") {
			if l != "" {
				out = append(out, l)
			}
		}
	}
	return out
}

func (c *Contracts) parseFile(prog *ssa.Program, p *packages.Package, sp *ssa.Package, f *ast.File) {
	docOf := map[*ast.CommentGroup]*ast.FuncDecl{}
	for _, d := range f.Decls {
		if fd, ok := d.(*ast.FuncDecl); ok && fd.Doc != nil {
			docOf[fd.Doc] = fd
		}
	}
	for _, cg := range f.Comments {
		ds := directives(cg, strings.HasSuffix(p.Fset.Position(f.Pos()).Filename, "verif_contracts.go"))
		if len(ds) == 0 {
			continue
		}
		pos := p.Fset.Position(cg.Pos()).String()
		var specFn *ssa.Function
		var specName string
		if fd := docOf[cg]; fd != nil {
			specName = fd.Name.Name
			if fd.Recv == nil {
				specFn = sp.Func(fd.Name.Name)
			}
		}
		for _, d := range ds {
			fs := strings.Fields(d)
			if len(fs) == 0 {
				continue
			}
			need := func(n int) bool {
				if len(fs) < n {
					c.errorf("%s: malformed directive %q", pos, d)
					return false
				}
				return true
			}
			clause := func(labels []string) *Clause {
				if specFn == nil {
					c.errorf("%s: directive %q must be the doc comment of a spec function", pos, d)
					return nil
				}
				return &Clause{Name: specName, Labels: labels, SpecFn: specFn}
			}
			switch fs[0] {
			case "requires":
				if !need(2) {
					continue
				}
				if s, cl := c.spec(sp, fs[1], pos), clause(nil); s != nil && cl != nil {
					s.Requires = append(s.Requires, cl)
				}
			case "ensures":
				if !need(3) {
					continue
				}
				if s, cl := c.spec(sp, fs[1], pos), clause(splitLabels(fs[2:])); s != nil && cl != nil {
					s.Ensures = append(s.Ensures, cl)
				}
			case "assume-ensures":
				// assume-ensures <target>: a postcondition the engine cannot prove (e.g. it needs induction over a tree);
				// call sites assume it, the evidence lists it as an assumption, bounded lemmas may support it
				if !need(2) {
					continue
				}
				if s, cl := c.spec(sp, fs[1], pos), clause(nil); s != nil && cl != nil {
					s.AssumedEnsures = append(s.AssumedEnsures, cl)
				}
			case "ghost-ensures":
				// ghost-ensures <target>: the clause DEFINES how the target updates specification-only (ghost) state
				if !need(2) {
					continue
				}
				if s, cl := c.spec(sp, fs[1], pos), clause(nil); s != nil && cl != nil {
					s.GhostEnsures = append(s.GhostEnsures, cl)
				}
			case "count-calls":
				// count-calls <target> <callee> ...: ghost counters of the calls the target makes to the named callees
				if !need(3) {
					continue
				}
				if s := c.spec(sp, fs[1], pos); s != nil {
					for _, n := range fs[2:] {
						s.CountCalls[strings.Trim(n, ",")] = true
					}
				}
			case "ghost-writer":
				// ghost-writer <Type>: objects of this type own a ghost byte stream that is empty when they are allocated
				if !need(2) {
					continue
				}
				c.ghostWriters = append(c.ghostWriters, sp.Pkg.Name()+"."+fs[1])
			case "invariant":
				if !need(3) {
					continue
				}
				n, err := strconv.Atoi(fs[2])
				if err != nil {
					c.errorf("%s: bad loop ordinal in %q", pos, d)
					continue
				}
				if s, cl := c.spec(sp, fs[1], pos), clause(splitLabels(fs[3:])); s != nil && cl != nil {
					s.Invariants[n] = append(s.Invariants[n], cl)
				}
			case "decreases":
				if !need(3) {
					continue
				}
				n, err := strconv.Atoi(fs[2])
				if err != nil {
					c.errorf("%s: bad loop ordinal in %q", pos, d)
					continue
				}
				if s, cl := c.spec(sp, fs[1], pos), clause(nil); s != nil && cl != nil {
					s.Decreases[n] = cl
				}
			case "panics_iff":
				if !need(3) {
					continue
				}
				if s, cl := c.spec(sp, fs[1], pos), clause(splitLabels(fs[2:])); s != nil && cl != nil {
					s.PanicsIff = cl
				}
			case "unroll", "unroll-complete":
				if !need(4) {
					continue
				}
				n, _ := strconv.Atoi(fs[2])
				k, _ := strconv.Atoi(fs[3])
				if s := c.spec(sp, fs[1], pos); s != nil {
					if fs[0] == "unroll" {
						s.Unroll[n] = k
					} else {
						s.UnrollComplete[n] = k
					}
				}
			case "at-call":
				// at-call <target> <callee> <labels>: the bound spec function must hold just before target calls callee
				if !need(4) {
					continue
				}
				if s, cl := c.spec(sp, fs[1], pos), clause(splitLabels(fs[3:])); s != nil && cl != nil {
					if s.AtCall == nil {
						s.AtCall = map[string][]*Clause{}
					}
					s.AtCall[fs[2]] = append(s.AtCall[fs[2]], cl)
				}
			case "assume-pure-handlers":
				if !need(2) {
					continue
				}
				if s := c.spec(sp, fs[1], pos); s != nil {
					s.PureFuncValues = true
				}
			case "thorough":
				if !need(2) {
					continue
				}
				if s := c.spec(sp, fs[1], pos); s != nil {
					s.Thorough = true
				}
			case "bounded":
				if !need(3) {
					continue
				}
				n, _ := strconv.Atoi(fs[2])
				if s := c.spec(sp, fs[1], pos); s != nil {
					s.Bounded = n
				}
			case "lemma":
				if specFn == nil {
					c.errorf("%s: lemma directive must document a function", pos)
					continue
				}
				if s := c.spec(sp, specName, pos); s != nil {
					s.Lemma = true
					s.Safe = append(s.Safe, splitLabels(fs[1:])...)
				}
			case "assigns":
				if !need(2) {
					continue
				}
				if s := c.spec(sp, fs[1], pos); s != nil {
					s.HasAssigns = true
					for _, a := range strings.Split(strings.Join(fs[2:], " "), ",") {
						a = strings.TrimSpace(a)
						if a != "" && a != "nothing" {
							s.Assigns = append(s.Assigns, a)
						}
					}
				}
			case "fresh":
				if !need(3) {
					continue
				}
				if s := c.spec(sp, fs[1], pos); s != nil {
					s.Fresh = append(s.Fresh, fs[2:]...)
				}
			case "unsafe-abstract":
				if !need(3) {
					continue
				}
				if s := c.spec(sp, fs[1], pos); s != nil {
					s.UnsafeAbstract = fs[2]
				}
			case "trusted":
				if !need(2) {
					continue
				}
				if s := c.spec(sp, fs[1], pos); s != nil {
					s.Trusted = true
				}
			case "pure":
				// pure <target> reads <prefix>, <prefix> ...
				if !need(4) || fs[2] != "reads" {
					c.errorf("%s: malformed directive %q (pure <target> reads <prefixes>)", pos, d)
					continue
				}
				if s := c.spec(sp, fs[1], pos); s != nil {
					s.Pure = true
					for _, r := range strings.Split(strings.Join(fs[3:], " "), ",") {
						if r = strings.TrimSpace(r); r != "" {
							s.Reads = append(s.Reads, r)
						}
					}
				}
			case "iterate":
				// iterate <target>: the function below is an invariant of "call <target> until it reports an error"
				if !need(2) {
					continue
				}
				if s, cl := c.spec(sp, fs[1], pos), clause(nil); s != nil && cl != nil {
					s.Iterate = cl
				}
			case "never-reads":
				// never-reads <target> <Type.field> <label>: the function does not even read that field (it belongs to
				// another goroutine): a read frame for functions that are not pure
				if !need(4) {
					continue
				}
				if s := c.spec(sp, fs[1], pos); s != nil {
					s.NeverReads = append(s.NeverReads, [2]string{sp.Pkg.Name() + "." + fs[2], fs[3]})
				}
			case "noframe":
				if !need(2) {
					continue
				}
				if s := c.spec(sp, fs[1], pos); s != nil {
					s.NoFrame = true
				}
			case "inline":
				if !need(2) {
					continue
				}
				if s := c.spec(sp, fs[1], pos); s != nil {
					s.Inline = true
				}
			case "safe":
				if !need(3) {
					continue
				}
				if s := c.spec(sp, fs[1], pos); s != nil {
					s.Safe = append(s.Safe, splitLabels(fs[2:])...)
				}
			case "iface":
				// iface <Iface.Method> requires|ensures
				if !need(3) {
					continue
				}
				key := sp.Pkg.Name() + "." + fs[1]
				if strings.Count(fs[1], ".") == 2 {
					key = fs[1] // an interface of another package, e.g. io.ReadCloser.Close
				}
				is := c.ifaces[key]
				if is == nil {
					k := strings.LastIndex(key, ".")
					is = &IfaceSpec{Iface: key[:k], Method: key[k+1:]}
					c.ifaces[key] = is
				}
				switch fs[2] {
				case "requires":
					if cl := clause(nil); cl != nil {
						is.Requires = append(is.Requires, cl)
					}
				case "ensures":
					if cl := clause(splitLabels(fs[3:])); cl != nil {
						is.Ensures = append(is.Ensures, cl)
					}
				case "pure":
					is.Pure = true
				case "assigns":
					for _, a := range strings.Split(strings.Join(fs[3:], " "), ",") {
						if a = strings.TrimSpace(a); a != "" && a != "nothing" {
							is.Assigns = append(is.Assigns, a)
						}
					}
				}
			case "interference":
				if !need(2) {
					continue
				}
				if cl := clause(nil); cl != nil {
					c.interf = append(c.interf, &InterfDecl{Field: fs[1], Rely: cl})
				}
			case "at-invoke":
				if !need(3) {
					continue
				}
				if cl := clause(splitLabels(fs[2:])); cl != nil {
					c.atInvoke = append(c.atInvoke, &AtInvoke{What: fs[1], Clause: cl})
				}
			case "lock-chan":
				if !need(2) {
					continue
				}
				c.lockChans = append(c.lockChans, fs[1])
			case "shared":
				// shared <what> guarded_by <guard> <label>
				if !need(5) {
					continue
				}
				c.shared = append(c.shared, &SharedDecl{What: fs[1], Guard: fs[3], Label: fs[4]})
			default:
				c.errorf("%s: unknown directive %q", pos, d)
			}
		}
	}
}
