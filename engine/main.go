package main

// govc: verification-condition generator and checker for contracts on go-oryx-lib.
//
//   govc check --prop C11 [--tier quick|thorough] [--repo /repo] [--verif /verif]

import (
	"encoding/json"
	"flag"
	"fmt"
	"go/types"
	"os"
	"path/filepath"
	"runtime"
	"sort"
	"strconv"
	"strings"
	"time"

	"golang.org/x/tools/go/packages"
	"golang.org/x/tools/go/ssa"
	"golang.org/x/tools/go/ssa/ssautil"
)

func collectModelTerms(entry *State, name string, t types.Type, v Value, depth int, add func(string, *Term)) {
	heapAt := func(key string, s Sort) *Term {
		if entry != nil {
			return entry.heap(key, s)
		}
		return Var("H0:"+key, s)
	}
	switch x := v.(type) {
	case *Term:
		add(name, x)
	case *SliceV:
		add(name+".arr", x.Arr)
		add(name+".off", x.Off)
		add(name+".len", x.Len)
		add(name+".cap", x.Cap)
		if isScalar(x.Elem) && scalarSort(x.Elem) == BV(8) {
			h := heapAt(elemKey(x.Elem), ArrSort(SInt, ArrSort(BV(64), BV(8))))
			inner := Select(h, x.Arr)
			for i := 0; i < modelBytes; i++ {
				add(fmt.Sprintf("%s[%d]", name, i), Select(inner, BVAdd(x.Off, BVConst(uint64(i), 64))))
			}
		}
	case *StrV:
		add(name+".slen", x.Len)
		for i := 0; i < modelBytes; i++ {
			add(fmt.Sprintf("%s[%d]", name, i), Select(x.Data, BVConst(uint64(i), 64)))
		}
	case *IfaceV:
		add(name+".tid", x.Tid)
		add(name+".ref", x.Ref)
		if isStreamType(t) {
			addStreamTerms(heapAt, name, x.Ref, add)
		}
	case *MapV:
		add(name+".ref", x.Ref)
	case *FuncV:
		if x.Opq != nil {
			add(name, x.Opq)
		}
	case *StructV:
		for i, f := range x.F {
			collectModelTerms(entry, name+"."+x.T.Field(i).Name(), x.T.Field(i).Type(), f, depth, add)
		}
	case *GhostV:
		for i, c := range x.C {
			add(fmt.Sprintf("%s.$%d", name, i), c)
		}
	case *PtrV:
		if x.Kind == PObj && len(x.Path) == 0 {
			add(name, x.Base)
			if isStreamType(t) {
				addStreamTerms(heapAt, name, x.Base, add)
			}
			if depth > 0 {
				func() {
					defer func() { recover() }()
					k, rt := fieldKey(x.Root, nil)
					cs := components(rt)
					ts := make([]*Term, len(cs))
					for i, c := range cs {
						ts[i] = Select(heapAt(k+c.suffix, ArrSort(SInt, c.sort)), x.Base)
					}
					pv := unflatten(rt, &ts)
					collectModelTerms(entry, name+"->", rt, pv, depth-1, add)
				}()
			}
		} else if x.Kind == PArr {
			add(name, x.Arr)
		}
	}
}

// isStreamType: values of this type carry a ghost byte stream (what they read from / write to)
func isStreamType(t types.Type) bool {
	if t == nil {
		return false
	}
	switch t.String() {
	case "io.Reader", "io.Writer", "io.ReadWriter", "io.ReadCloser", "io.WriteCloser", "net.Conn", "*bufio.Reader", "*bufio.Writer":
		return true
	}
	return false
}

const streamModelBytes = 192

// addStreamTerms asks the model for the entry state of the ghost streams of a reader/writer value: the unread input
// (position, length, first bytes, terminal error) and the output written so far (length, capacity before it fails).
func addStreamTerms(heapAt func(string, Sort) *Term, name string, ref *Term, add func(string, *Term)) {
	get := func(k string, s Sort) *Term { return Select(heapAt("ghost:"+k, ArrSort(SInt, s)), ref) }
	pos := get("rd.pos", BV(64))
	add(name+".rd.pos", pos)
	add(name+".rd.len", get("rd.len", BV(64)))
	add(name+".rd.err.tid", get("rd.err.tid", SInt))
	add(name+".rd.err.ref", get("rd.err.ref", SInt))
	data := get("rd.data", ArrSort(BV(64), BV(8)))
	for i := 0; i < streamModelBytes; i++ {
		add(fmt.Sprintf("%s.rd[%d]", name, i), Select(data, BVAdd(pos, BVConst(uint64(i), 64))))
	}
	add(name+".wr.len", get("wr.len", BV(64)))
	add(name+".wr.limit", get("wr.limit", BV(64)))
}

type Evidence struct {
	PropertyID  string                 `json:"property_id"`
	Tier        string                 `json:"tier"`
	Seed        int                    `json:"seed"`
	Level       string                 `json:"level"`
	Coverage    map[string]interface{} `json:"coverage"`
	Assumptions []string               `json:"assumptions"`
	WallS       float64                `json:"wall_s"`
	Violations  int                    `json:"violations"`
}

type KnownFinding struct {
	Property   string `json:"property"`
	Obligation string `json:"obligation"`
	What       string `json:"what"`
	Status     string `json:"status"` // "known" or "fixed"
	Commit     string `json:"commit,omitempty"`
}

func loadKnown(path string) []KnownFinding {
	var k struct {
		Findings []KnownFinding `json:"findings"`
	}
	b, err := os.ReadFile(path)
	if err != nil {
		return nil
	}
	json.Unmarshal(b, &k)
	return k.Findings
}

func main() {
	if len(os.Args) < 2 {
		fmt.Fprintln(os.Stderr, "usage: govc check|list ...")
		os.Exit(2)
	}
	switch os.Args[1] {
	case "check":
		os.Exit(cmdCheck(os.Args[2:]))
	default:
		fmt.Fprintln(os.Stderr, "unknown command", os.Args[1])
		os.Exit(2)
	}
}

func loadProgram(repo string, patterns []string) (*ssa.Program, []*packages.Package, error) {
	cfg := &packages.Config{Mode: packages.LoadAllSyntax, Dir: repo, BuildFlags: []string{"-tags=verif"},
		Env: append(os.Environ(), "GOFLAGS=-mod=mod", "GOPROXY=off", "GOSUMDB=off", "GOTOOLCHAIN=local")}
	pkgs, err := packages.Load(cfg, patterns...)
	if err != nil {
		return nil, nil, err
	}
	var errs []string
	packages.Visit(pkgs, nil, func(p *packages.Package) {
		for _, e := range p.Errors {
			errs = append(errs, e.Error())
		}
	})
	if len(errs) > 0 {
		return nil, nil, fmt.Errorf("package errors:\n%s", strings.Join(errs, "\n"))
	}
	prog, _ := ssautil.AllPackages(pkgs, ssa.GlobalDebug)
	prog.Build()
	return prog, pkgs, nil
}

// which packages hold the contracts of each property
var propPackages = map[string][]string{
	"C01": {"./rtmp"}, "C02": {"./rtmp"}, "C03": {"./rtmp"}, "C04": {"./rtmp"},
	"C05": {"./amf0", "./rtmp"}, "C06": {"./amf0"},
	"C07": {"./aac", "./flv", "./avc", "./amf0", "./rtmp", "./websocket", "./json", "./https/jose", "./https/jose/cipher"},
	"C08": {"./errors", "./rtmp", "./flv"}, "C09": {"./flv"}, "C10": {"./flv"}, "C11": {"./aac"}, "C12": {"./avc"},
	"C13": {"./websocket"}, "C14": {"./websocket"}, "C15": {"./websocket"}, "C18": {"./logger"}, "C20": {"./kxps"},
}

func cmdCheck(args []string) int {
	fs := flag.NewFlagSet("check", flag.ExitOnError)
	prop := fs.String("prop", "", "property id")
	tier := fs.String("tier", "quick", "quick|thorough")
	repo := fs.String("repo", "/repo", "repository")
	verif := fs.String("verif", "/verif", "verif dir")
	only := fs.String("only", "", "only functions containing this substring (debug)")
	keep := fs.Bool("keep", false, "keep query files")
	verbose := fs.Bool("v", false, "verbose")
	noDeps := fs.Bool("no-deps", false, "do not verify the contracts assumed at call sites (debug)")
	noEvidence := fs.Bool("no-evidence", false, "do not write the evidence file (selftest runs)")
	fs.Parse(args)
	noEvidenceFlag = *noEvidence
	if *prop == "" {
		fmt.Fprintln(os.Stderr, "--prop required")
		return 2
	}
	if t := os.Getenv("VERIF_TIER"); t != "" && *tier == "quick" {
		*tier = t
	}
	seed, _ := strconv.Atoi(os.Getenv("VERIF_SEED"))
	t0 := time.Now()
	// per-query limits (seconds). A run without violations never waits for them: they only bound how long an undecided
	// query is pursued, and are generous so that a loaded machine does not turn a 5 s proof into an "unknown".
	timeout := 60
	if *tier == "thorough" {
		timeout = 240
	}
	pats := propPackages[*prop]
	if pats == nil {
		fmt.Fprintln(os.Stderr, "no packages registered for", *prop)
		return 2
	}
	prog, pkgs, err := loadProgram(*repo, pats)
	if err != nil {
		fmt.Fprintln(os.Stderr, "load:", err)
		return failClosed(*verif, *prop, *tier, seed, "load", err.Error(), t0)
	}
	specs := LoadContracts(prog, pkgs)
	if len(specs.errs) > 0 {
		return failClosed(*verif, *prop, *tier, seed, "contracts", strings.Join(specs.errs, "\n"), t0)
	}
	if v := os.Getenv("GOVC_PRUNE_AFTER"); v != "" {
		pruneAfter, _ = strconv.Atoi(v)
	}
	if os.Getenv("GOVC_FORKS") != "" {
		forkStats = map[string]int{}
		defer func() {
			type kv struct {
				k string
				v int
			}
			var l []kv
			for k, v := range forkStats {
				l = append(l, kv{k, v})
			}
			sort.Slice(l, func(i, j int) bool { return l[i].v > l[j].v })
			for i, e := range l {
				if i < 25 {
					fmt.Fprintf(os.Stderr, "fork %6d %s\n", e.v, e.k)
				}
			}
		}()
	}
	if os.Getenv("GOVC_DEBUG") == "2" {
		debugDead = func(why string, t *Term) {
			fmt.Fprintf(os.Stderr, "DEAD(%s): %s\n", why, showTerm(t, 5))
			buf := make([]byte, 4096)
			n := runtime.Stack(buf, false)
			k := 0
			for _, ln := range strings.Split(string(buf[:n]), "\n") {
				if strings.Contains(ln, "/verif/engine/") && k < 9 {
					fmt.Fprintf(os.Stderr, "    %s\n", strings.TrimSpace(ln))
					k++
				}
			}
		}
	}
	ex := NewExec(prog, specs)
	ex.genLimit = 5 * time.Minute   // the slowest function on the unchanged tree needs about 25 s
	ex.genSlowMax = 3 * time.Minute // (after one function has used up its limit, the others get a tenth of it)
	if *tier == "thorough" {
		ex.genLimit = 20 * time.Minute
		ex.genSlowMax = 20 * time.Minute
	}
	ex.setupGlobals(pkgs)
	extraModelTerms = func(entry *State, add func(string, *Term)) {
		defer func() { recover() }()
		if entry == nil {
			return
		}
		for _, n := range []string{"EOF", "ErrUnexpectedEOF"} {
			v := ex.ioEOF(entry.Clone(), n)
			add("$io."+n+".tid", v.Tid)
			add("$io."+n+".ref", v.Ref)
		}
	}
	axioms := map[string][]*Term{}
	var fnsUnder []string
	var unsup []string
	returnsOf := map[string]int{}
	var skippedThorough []string
	ex.usedSpecs = map[*FnSpec]bool{}
	mainPass := map[*FnSpec]bool{}
	verifyOne := func(sp *FnSpec, mode string) {
		ex.axioms = nil
		n0 := len(ex.obls)
		t1 := time.Now()
		err := ex.VerifyFunction(sp, mode)
		// A contract's assigns clause havocs the heap components known so far; a component that this very run touched for
		// the first time after such a havoc would have read its initial value. Generate the conditions again now that the
		// components are known (until no new one appears).
		for round := 0; round < 3 && err == nil; round++ {
			known := len(heapSorts)
			ex.obls = ex.obls[:n0]
			ex.axioms = nil
			err = ex.VerifyFunction(sp, mode)
			if len(heapSorts) == known {
				break
			}
		}
		name := fnName(sp.Fn)
		if mode == "*" && mainPass[sp] {
			// second visit of a function already verified for this property's own clauses: keep only the new clauses
			have := map[string]bool{}
			for _, o := range ex.obls[:n0] {
				if o.Fn == name {
					have[o.Name] = true
				}
			}
			kept := ex.obls[:n0:n0]
			for _, o := range ex.obls[n0:] {
				if !have[o.Name] {
					kept = append(kept, o)
				}
			}
			ex.obls = kept
		}
		if *verbose {
			fmt.Fprintf(os.Stderr, "vcgen %-60s paths=%d obls=%d %.2fs %s\n", name, ex.paths, len(ex.obls)-n0, time.Since(t1).Seconds(), map[bool]string{true: "(dependency)"}[mode == "*"])
		}
		if err != nil {
			// fail closed: the function left the supported subset
			ex.obls = ex.obls[:n0]
			ex.obls = append(ex.obls, &Obligation{Name: name + "#subset", Kind: "subset", Fn: name, Labels: []string{*prop}, PC: True, Goal: False, Pos: err.Error()})
			unsup = append(unsup, name+": "+err.Error())
		}
		axioms[name] = append(axioms[name], ex.axioms...)
		if !mainPass[sp] || mode != "*" {
			fnsUnder = append(fnsUnder, name)
		}
		returnsOf[name] = ex.returns
	}
	for _, sp := range specs.list {
		if !sp.props()[*prop] {
			continue
		}
		if *only != "" && !strings.Contains(sp.Target, *only) {
			continue
		}
		if sp.Trusted {
			ex.note("trusted contract (assumed, body not verified): " + sp.Target)
			continue
		}
		if sp.Thorough && *tier != "thorough" {
			skippedThorough = append(skippedThorough, fnName(sp.Fn))
			continue
		}
		verifyOne(sp, *prop)
		mainPass[sp] = true
	}
	// dependency closure: every contract assumed at a call site of a function verified above is itself verified here,
	// with all of its clauses (whatever property they are labelled with), transitively
	var depFns []string
	if *only == "" && !*noDeps {
		done := map[*FnSpec]bool{}
		for {
			var next *FnSpec
			for _, sp := range specs.list { // specs.list order keeps the run deterministic
				if ex.usedSpecs[sp] && !done[sp] {
					next = sp
					break
				}
			}
			if next == nil {
				break
			}
			done[next] = true
			if next.Trusted || next.Fn == nil || (next.Thorough && *tier != "thorough") {
				continue
			}
			if mainPass[next] && next.onlyProp(*prop) {
				continue // every clause already verified above
			}
			verifyOne(next, "*")
			depFns = append(depFns, fnName(next.Fn))
		}
	}
	if len(fnsUnder) == 0 {
		return failClosed(*verif, *prop, *tier, seed, "target", "no function under contract for this property", t0)
	}
	defAxiomsGlobal = ex.defAxioms
	groups := groupObligations(ex.obls, axioms)
	if forkStats != nil {
		return 3
	}
	if *verbose {
		fmt.Fprintf(os.Stderr, "vcgen done: %d obligations in %d groups, %d terms, %.1fs\n", len(ex.obls), len(groups), len(termList), time.Since(t0).Seconds())
	}
	work := filepath.Join(*verif, ".work", *prop)
	os.RemoveAll(work)
	results := discharge(groups, work, timeout, *tier == "thorough", 16)

	known := loadKnown(filepath.Join(*verif, "known_findings.json"))
	isKnown := func(name string) *KnownFinding {
		for i := range known {
			if known[i].Property == *prop && known[i].Obligation == name && known[i].Status == "known" {
				return &known[i]
			}
		}
		return nil
	}
	var violations, discharged, total, trivial, covers, coversOK, coverCalls, coverCallsOK int
	perBackend := map[string]int{}
	var solverS float64
	var samples []map[string]interface{}
	isKnownElsewhere := func(name string) *KnownFinding {
		for i := range known {
			if known[i].Property != *prop && known[i].Obligation == name && known[i].Status == "known" {
				return &known[i]
			}
		}
		return nil
	}
	var knownHit, depKnown []string
	var lines []string
	confirmed := 0
	for _, r := range results {
		g := r.Group
		solverS += r.Seconds
		if g.Kind == "cover-call" {
			// a callee's postcondition contradicting the call-site state would make everything after it vacuous:
			// only a definite unsat is an alarm (quantified contexts often answer unknown)
			coverCalls++
			if r.Verdict == "unsat" && preSatisfiable(r.Group, filepath.Join(work, "pre"), timeout) {
				violations++
				path := writeReplay(*verif, *prop, r, "vacuous: the callee's assumed contract is inconsistent with the state at this call site")
				lines = append(lines, fmt.Sprintf("VIOLATION property=%s replay=%s obligation=%s no-failing-input-found", *prop, path, g.Name))
			} else if r.Verdict == "sat" {
				coverCallsOK++
			}
			continue
		}
		if g.Kind == "cover" {
			covers++
			if r.Verdict == "sat" {
				coversOK++
			} else {
				violations++
				path := writeReplay(*verif, *prop, r, "vacuous: the precondition (with the type invariants) is unsatisfiable or undecided")
				lines = append(lines, fmt.Sprintf("VIOLATION property=%s replay=%s obligation=%s no-failing-input-found", *prop, path, g.Name))
			}
			continue
		}
		total++
		ok := r.Verdict == "unsat" && !r.Disagree
		if ok {
			discharged++
			if r.Trivial {
				trivial++
			}
			perBackend[r.Solver]++
			if len(r.Confirm) > 0 {
				confirmed++
			}
		} else {
			if kf := isKnown(g.Name); kf != nil {
				knownHit = append(knownHit, fmt.Sprintf("KNOWN-FINDING: property=%s %s: %s", *prop, g.Name, kf.What))
				total--
				continue
			}
			if kf := isKnownElsewhere(g.Name); kf != nil {
				// a clause of another property's contract that this run only reached as a dependency; it is that property's
				// recorded finding, not a violation of this one
				depKnown = append(depKnown, fmt.Sprintf("dependency clause %s is the recorded known finding of %s (%s); call sites in this run assumed it", g.Name, kf.Property, kf.What))
				total--
				continue
			}
			violations++
			path, reproduced := replayResult(*verif, *repo, *prop, r, ex)
			suffix := ""
			if !reproduced {
				suffix = " no-failing-input-found"
			}
			lines = append(lines, fmt.Sprintf("VIOLATION property=%s replay=%s obligation=%s verdict=%s%s", *prop, path, g.Name, r.Verdict, suffix))
		}
		if len(samples) < 6 && !r.Trivial {
			samples = append(samples, map[string]interface{}{"obligation": g.Name, "kind": g.Kind, "paths": len(g.Obls), "verdict": r.Verdict, "solver": r.Solver, "seconds": round3(r.Seconds), "dag_nodes": r.Size})
		}
	}
	if len(samples) == 0 {
		for _, r := range results {
			if len(samples) < 3 {
				samples = append(samples, map[string]interface{}{"obligation": r.Group.Name, "kind": r.Group.Kind, "verdict": r.Verdict, "solver": r.Solver})
			}
		}
	}
	if os.Getenv("GOVC_LIST") != "" {
		for _, r := range results {
			fmt.Fprintf(os.Stderr, "obl %-90s %-8s paths=%d\n", r.Group.Name, r.Verdict, len(r.Group.Obls))
		}
	}
	if *verbose {
		rs := append([]*Result(nil), results...)
		sort.Slice(rs, func(i, j int) bool { return rs[i].Seconds > rs[j].Seconds })
		for i, r := range rs {
			if i < 12 {
				fmt.Fprintf(os.Stderr, "slow %-70s %6.2fs %s %s paths=%d\n", r.Group.Name, r.Seconds, r.Verdict, r.Solver, len(r.Group.Obls))
			}
		}
	}
	for _, l := range knownHit {
		fmt.Println(l)
	}
	for _, l := range depKnown {
		fmt.Println("NOTE: " + l)
	}
	for _, l := range lines {
		fmt.Println(l)
	}
	var notes []string
	for n := range ex.notes {
		if !strings.HasPrefix(n, "def:") {
			notes = append(notes, n)
		}
	}
	sort.Strings(notes)
	var trusted, bounded, assumptions []string
	for _, n := range notes {
		switch {
		case strings.HasPrefix(n, "trusted"):
			trusted = append(trusted, n)
		case strings.HasPrefix(n, "BOUNDED"):
			bounded = append(bounded, n)
		default:
			assumptions = append(assumptions, n)
		}
	}
	trustedBase := append([]string{
		"govc engine (go/ssa -> SMT-LIB translation, /verif/engine) and golang.org/x/tools/go/ssa v0.29.0",
		"SMT solvers z3 5.1.0, z3 4.8.12, cvc5 1.0.3",
		"linux/amd64: int is 64 bits; allocation below 2^47 bytes never fails; no slice longer than 2^40 elements",
	}, trusted...)
	ev := Evidence{PropertyID: *prop, Tier: *tier, Seed: seed, Level: "proof", WallS: round3(time.Since(t0).Seconds()), Violations: violations,
		Assumptions: append(assumptions, "machine integers are exact fixed-width bit-vectors (nothing treated as mathematical)"),
		Coverage: map[string]interface{}{
			"obligations":                total,
			"discharged":                 discharged,
			"discharged_by_simplifier":   trivial,
			"checker_cmd":                fmt.Sprintf("./check %s --tier %s", *prop, *tier),
			"trusted_base":               trustedBase,
			"functions_under_contract":   fnsUnder,
			"per_backend":                perBackend,
			"solver_s":                   round3(solverS),
			"cover_queries":              map[string]int{"total": covers, "satisfiable": coversOK},
			"bounded":                    bounded,
			"unverified_functions":       unsup,
			"known_findings":             knownHit,
			"dependency_functions":       depFns,
			"dependency_known_findings":  depKnown,
			"confirmed_by_second_solver": confirmed,
			"samples":                    samples,
			"paths_per_function":         returnsOf,
		}}
	if !*noEvidence {
		os.MkdirAll(filepath.Join(*verif, "evidence"), 0o755)
		b, _ := json.MarshalIndent(ev, "", " ")
		os.WriteFile(filepath.Join(*verif, "evidence", *prop+".json"), b, 0o644)
	}
	if !*keep && violations == 0 {
		os.RemoveAll(work)
	}
	fmt.Printf("%s: %d obligations, %d discharged (%d by simplifier), %d cover queries ok, %d violations, %.1fs\n", *prop, total, discharged, trivial, coversOK, violations, time.Since(t0).Seconds())
	if violations > 0 {
		return 1
	}
	return 0
}

// preSatisfiable: was the path leading to the call feasible at all? (an infeasible path makes the post-state trivially
// unsatisfiable without any fault of the callee's contract)
func preSatisfiable(g *Group, dir string, timeout int) bool {
	os.MkdirAll(dir, 0o755)
	for i, o := range g.Obls {
		if o.PrePC == nil {
			continue
		}
		p := NewPrinter()
		as := []*Term{o.PrePC}
		as = append(as, boundFactsFor(as...)...)
		q := p.Query(as, nil)
		f := filepath.Join(dir, fmt.Sprintf("%s.%d.smt2", sanitize(g.Name), i))
		if len(f) > 200 {
			f = filepath.Join(dir, fmt.Sprintf("pre%d.%d.smt2", len(g.Name), i))
		}
		os.WriteFile(f, []byte(q), 0o644)
		if v, _, _, _, _, _ := race(q, f, 5, false); v == "sat" {
			return true
		}
	}
	return false
}

func round3(f float64) float64 { return float64(int(f*1000)) / 1000 }

var noEvidenceFlag bool

func failClosed(verif, prop, tier string, seed int, what, msg string, t0 time.Time) int {
	dir := filepath.Join(verif, "replays", prop)
	os.MkdirAll(dir, 0o755)
	path := filepath.Join(dir, what+".json")
	b, _ := json.MarshalIndent(map[string]interface{}{"property": prop, "obligation": prop + "#" + what, "reason": msg}, "", " ")
	os.WriteFile(path, b, 0o644)
	fmt.Printf("VIOLATION property=%s replay=%s obligation=%s#%s no-failing-input-found\n", prop, path, prop, what)
	fmt.Fprintln(os.Stderr, msg)
	if noEvidenceFlag {
		return 1
	}
	ev := Evidence{PropertyID: prop, Tier: tier, Seed: seed, Level: "proof", WallS: round3(time.Since(t0).Seconds()), Violations: 1,
		Assumptions: []string{"fail-closed run: the check could not be set up (" + what + "); nothing was proved"},
		Coverage: map[string]interface{}{"obligations": 1, "discharged": 0, "checker_cmd": "./check " + prop, "trusted_base": []string{}, "samples": []string{what + ": " + msg},
			"evaluations": 1, "distinct_nontrivial": 0}}
	os.MkdirAll(filepath.Join(verif, "evidence"), 0o755)
	bb, _ := json.MarshalIndent(ev, "", " ")
	os.WriteFile(filepath.Join(verif, "evidence", prop+".json"), bb, 0o644)
	return 1
}

func writeReplay(verif, prop string, r *Result, note string) string {
	dir := filepath.Join(verif, "replays", prop)
	os.MkdirAll(dir, 0o755)
	path := filepath.Join(dir, sanitize(r.Group.Name)+".json")
	b, _ := json.MarshalIndent(map[string]interface{}{
		"property": prop, "obligation": r.Group.Name, "kind": r.Group.Kind, "position": r.Group.Pos, "verdict": r.Verdict, "solver": r.Solver,
		"model": r.Model, "solver_output": truncate(r.Output, 4000), "note": note, "query_file": r.File,
	}, "", " ")
	os.WriteFile(path, b, 0o644)
	return path
}

func truncate(s string, n int) string {
	if len(s) > n {
		return s[:n] + "..."
	}
	return s
}
