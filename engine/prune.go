package main

// Feasibility pruning of branches with an incremental z3 session (used only once a function has forked often).
// A branch is dropped only on a definite `unsat`; timeouts and unknowns keep both branches (sound).

import (
	"bufio"
	"fmt"
	"io"
	"os/exec"
	"strings"
)

type Pruner struct {
	cmd      *exec.Cmd
	in       io.WriteCloser
	out      *bufio.Reader
	p        *Printer
	sentSB   int
	sentDecl int
	sentFun  int
	queries  int
	pruned   int
	dead     bool
}

func NewPruner() *Pruner {
	cmd := exec.Command("z3-new", "-in", "-smt2")
	in, err := cmd.StdinPipe()
	if err != nil {
		return &Pruner{dead: true}
	}
	out, err := cmd.StdoutPipe()
	if err != nil {
		return &Pruner{dead: true}
	}
	if err := cmd.Start(); err != nil {
		return &Pruner{dead: true}
	}
	pr := &Pruner{cmd: cmd, in: in, out: bufio.NewReader(out), p: NewPrinter()}
	fmt.Fprintln(in, "(set-option :timeout 250)")
	fmt.Fprintln(in, "(set-logic ALL)")
	return pr
}

func (pr *Pruner) Close() {
	if pr == nil || pr.dead {
		return
	}
	pr.in.Close()
	pr.cmd.Process.Kill()
	pr.cmd.Wait()
	pr.dead = true
}

// Infeasible reports whether the conjunction of ts is definitely unsatisfiable.
func (pr *Pruner) Infeasible(ts []*Term) bool {
	if pr == nil || pr.dead {
		return false
	}
	var names []string
	ts = append(ts, boundFactsFor(ts...)...)
	for _, t := range ts {
		if t == True {
			continue
		}
		if t == False {
			return true
		}
		names = append(names, pr.p.ref(t))
	}
	var sb strings.Builder
	for ; pr.sentDecl < len(pr.p.declOrd); pr.sentDecl++ {
		n := pr.p.declOrd[pr.sentDecl]
		fmt.Fprintf(&sb, "(declare-const %s %s)\n", smtName(n), pr.p.decls[n])
	}
	for ; pr.sentFun < len(pr.p.funOrd); pr.sentFun++ {
		sb.WriteString(pr.p.funs[pr.p.funOrd[pr.sentFun]])
		sb.WriteByte('\n')
	}
	all := pr.p.sb.String()
	sb.WriteString(all[pr.sentSB:])
	pr.sentSB = len(all)
	sb.WriteString("(push)\n")
	for _, n := range names {
		fmt.Fprintf(&sb, "(assert %s)\n", n)
	}
	pr.queries++
	marker := fmt.Sprintf("done-%d", pr.queries)
	fmt.Fprintf(&sb, "(check-sat)\n(pop)\n(echo \"%s\")\n", marker)
	if _, err := io.WriteString(pr.in, sb.String()); err != nil {
		pr.dead = true
		return false
	}
	// read everything up to this query's marker: a stale or extra line can never be taken for this answer
	verdict := ""
	sawError := false
	for {
		line, err := pr.out.ReadString('\n')
		if err != nil {
			pr.dead = true
			return false
		}
		line = strings.TrimSpace(line)
		if line == marker || line == "\""+marker+"\"" {
			break
		}
		switch line {
		case "unsat", "sat", "unknown", "timeout":
			verdict = line
		}
		if strings.HasPrefix(line, "(error") {
			sawError = true
		}
	}
	if verdict == "unsat" && !sawError {
		pr.pruned++
		return true
	}
	return false
}
