package main

// Per-function verification against contracts; spec-function evaluation; frames; contract summaries at call sites.

import (
	"fmt"
	"go/token"
	"go/types"
	"os"
	"sort"
	"strconv"
	"strings"
	"time"

	"golang.org/x/tools/go/ssa"
)

type envFn func(name string, t types.Type) (Value, bool)

// ---------- spec evaluation ----------

func (e *Exec) bindSpecArgs(st *State, fn *ssa.Function, env envFn) []Value {
	var args []Value
	for _, p := range fn.Params {
		v, ok := env(p.Name(), p.Type())
		if !ok {
			panic(unsupported(fmt.Sprintf("spec function %s: cannot bind parameter %q", fn.Name(), p.Name())))
		}
		args = append(args, v)
	}
	return args
}

// evalSpec evaluates a boolean spec function in state st. assertMode: undefined (panicking) spec counts as false;
// otherwise (assume mode) as true.
func (e *Exec) evalSpec(st *State, fr *Frame, c *Clause, env envFn, assertMode bool) *Term {
	args := e.bindSpecArgs(st, c.SpecFn, env)
	return e.evalSpecArgs(st, c.SpecFn, args, assertMode)
}

func (e *Exec) evalSpecArgs(st *State, fn *ssa.Function, args []Value, assertMode bool) *Term {
	e.specMode++
	saved := e.specDefs
	e.specDefs = nil
	s2 := st.Clone()
	n := len(s2.pc)
	nf := len(s2.facts)
	savedBase := e.specBase
	if e.specMode == 1 {
		e.specBase = n
	}
	defer func() { e.specBase = savedBase }()
	savedStack := e.stack
	savedAssert := e.specAssert
	e.specAssert = assertMode
	outs := e.callFunction(s2, &Frame{depth: 0}, fn, args, nil, token.NoPos)
	e.specAssert = savedAssert
	e.stack = savedStack
	defs := e.specDefs
	e.specDefs = saved
	e.specMode--
	var alts []*Term
	for _, o := range outs {
		r, ok := o.results[0].(*Term)
		if !ok || r.Sort != SBool {
			panic(unsupported("spec function " + fn.Name() + " must return bool"))
		}
		var delta *Term = True
		if len(o.st.pc) >= n {
			delta = And(o.st.pc[n:]...)
		}
		alts = append(alts, And(delta, r))
		if os.Getenv("GOVC_DEBUG") == "3" && e.discovery == 0 && fn.Name() == os.Getenv("GOVC_SPEC") {
			fmt.Fprintf(os.Stderr, "SPECPATH %s: delta=%s r=%s dead=%v\n", fn.Name(), showTerm(delta, dbgDepth()), showTerm(r, dbgDepth()), o.st.dead)
		}
		for _, f := range o.st.facts[nf:] {
			if !f.hasBound {
				st.AssumeFact(f)
			}
		}
	}
	R := Or(alts...)
	// definedness: each collected implication has the full path condition as antecedent
	D := And(defs...)
	if os.Getenv("GOVC_DEBUG") == "3" && e.discovery == 0 && fn.Name() == os.Getenv("GOVC_SPEC") {
		for _, d := range defs {
			fmt.Fprintf(os.Stderr, "SPECDEF %s: %s\n", fn.Name(), showTerm(d, dbgDepth()))
		}
	}
	if assertMode {
		return And(D, R)
	}
	return Implies(D, R)
}

// ---------- environments ----------

func (e *Exec) oldValue(st *State, fr *Frame, name string, t types.Type) (Value, bool) {
	x, ok := fr.params[name]
	if !ok {
		return nil, false
	}
	var xt types.Type
	for _, p := range fr.fn.Params {
		if p.Name() == name {
			xt = p.Type()
		}
	}
	if xt == nil {
		return nil, false
	}
	if pt, ok := xt.Underlying().(*types.Pointer); ok && types.Identical(pt.Elem(), t) {
		p := x.(*PtrV)
		v := fr.entry.LoadLoc(e.locOf(p))
		return v, true
	}
	if types.Identical(xt, t) {
		if s, ok := x.(*SliceV); ok {
			r := st.NewRef()
			for _, c := range components(s.Elem) {
				st.setArrayOf(s.Elem, c, r, fr.entry.arrayOf(s.Elem, c, s.Arr))
			}
			return &SliceV{Arr: r, Off: s.Off, Len: s.Len, Cap: s.Cap, Elem: s.Elem}, true
		}
		return x, true
	}
	return nil, false
}

func (e *Exec) topEnvLookup(st *State, fr *Frame, name string, t types.Type) (Value, bool) {
	if strings.HasPrefix(name, "old_") {
		return e.oldValue(st, fr, strings.TrimPrefix(name, "old_"), t)
	}
	if v, ok := fr.params[name]; ok {
		return v, true
	}
	return nil, false
}

func (e *Exec) resultEnv(st *State, fr *Frame, results []Value) envFn {
	sig := fr.fn.Signature.Results()
	return func(name string, t types.Type) (Value, bool) {
		for i := 0; i < sig.Len(); i++ {
			if sig.At(i).Name() == name || fmt.Sprintf("ret%d", i) == name {
				return results[i], true
			}
		}
		return e.topEnvLookup(st, fr, name, t)
	}
}

// ---------- frames (assigns) ----------

type assignEntry struct {
	prefix string
	ref    *Term
	text   string
	whole  bool  // prefix names a whole type: match the key itself or any of its fields
	off    *Term // slice elements: only [off, off+n) of the backing array may change
	n      *Term
	only   []string // exact heap keys (ghost streams: only the mutable components)
}

func (a assignEntry) covers(key string) bool {
	if len(a.only) > 0 {
		for _, k := range a.only {
			if k == key {
				return true
			}
		}
		return false
	}
	if a.whole {
		return key == a.prefix || strings.HasPrefix(key, a.prefix+".")
	}
	return strings.HasPrefix(key, a.prefix)
}

// resolveAssign resolves an assigns path such as "v.asc", "v.*", "data[*]", "v.input.transactions[*]".
func (e *Exec) resolveAssign(st *State, fn *ssa.Function, params map[string]Value, path string) assignEntry {
	if strings.HasPrefix(path, "any(") {
		// every object of the named type of this package: any(chunkStream)
		tn := strings.TrimSuffix(strings.TrimPrefix(path, "any("), ")")
		pk := ""
		if p := fn.Package(); p != nil && !strings.Contains(tn, ".") { // any(pkg.Type) names a type of another package
			pk = p.Pkg.Name() + "."
		}
		return assignEntry{prefix: pk + tn, ref: nil, text: path, whole: true}
	}
	if strings.HasPrefix(path, "global(") {
		name := strings.TrimSuffix(strings.TrimPrefix(path, "global("), ")")
		if p := fn.Package(); p != nil {
			if g, ok := p.Members[name].(*ssa.Global); ok {
				l := e.locOf(e.globalPtr(g).(*PtrV))
				return assignEntry{prefix: l.Key, ref: l.Idx[0], text: path}
			}
		}
		panic(unsupported("assigns: unknown package-level variable " + name))
	}
	if path == "ghost.ioerr" {
		return assignEntry{prefix: "ghost:ioerr", ref: IntConst(0), text: path}
	}
	if strings.HasPrefix(path, "ghost.") && !strings.Contains(path, "(") {
		return assignEntry{prefix: "ghost:" + strings.TrimPrefix(path, "ghost."), ref: IntConst(0), text: path}
	}
	if strings.HasPrefix(path, "ghost.lock(") {
		inner := strings.TrimSuffix(strings.TrimPrefix(path, "ghost.lock("), ")")
		val := e.valueAt(st, fn, params, inner)
		return assignEntry{prefix: "ghost:chanheld", ref: val.(*Term), text: path}
	}
	if strings.HasPrefix(path, "ghost.rd(") || strings.HasPrefix(path, "ghost.wr(") {
		inner := strings.TrimSuffix(path[len("ghost.rd("):], ")")
		// the value (a parameter, or what a location holds) is the reader/writer: its reference identifies the stream
		val := e.valueAt(st, fn, params, inner)
		fam := path[len("ghost."):len("ghost.rd")]
		if fam == "wr" {
			fam = e.wrFamily(val)
		}
		// a call can move a read stream's position and extend a write stream; what the stream holds ahead of the
		// position, its length, the point where a writer starts failing and the terminal errors never change
		only := []string{"ghost:" + fam + ".pos"}
		if fam != "rd" {
			only = []string{"ghost:" + fam + ".data", "ghost:" + fam + ".len", "ghost:" + fam + ".flushed"}
		}
		return assignEntry{prefix: "ghost:" + fam + ".", ref: streamRef(val), text: path, only: only}
	}
	elems := false
	if strings.HasSuffix(path, "[*]") {
		elems = true
		path = strings.TrimSuffix(path, "[*]")
	}
	parts := strings.Split(path, ".")
	cur, ok := params[parts[0]]
	if !ok {
		panic(unsupported("assigns: unknown root " + parts[0] + " in " + fnName(fn)))
	}
	for fi, f := range parts[1:] {
		if f == "*" {
			break
		}
		last := fi == len(parts)-2
		p, ok := cur.(*PtrV)
		if !ok || p.Kind != PObj {
			panic(unsupported("assigns: cannot select ." + f + " in " + path))
		}
		l := e.locOf(p)
		st2, isStruct := l.T.Underlying().(*types.Struct)
		if !isStruct {
			// pointer to pointer-typed field: load and continue
			panic(unsupported("assigns: " + path + ": not a struct at ." + f))
		}
		idx := -1
		for i := 0; i < st2.NumFields(); i++ {
			if st2.Field(i).Name() == f {
				idx = i
			}
		}
		if idx < 0 {
			panic(unsupported("assigns: no field " + f + " in " + path))
		}
		np := *p
		np.Path = append(append([]int(nil), p.Path...), idx)
		ft := st2.Field(idx).Type()
		if _, isPtr := ft.Underlying().(*types.Pointer); isPtr && !last {
			v := st.LoadLoc(e.locOf(&np))
			cur = v
		} else {
			cur = &np
		}
	}
	if elems {
		switch x := cur.(type) {
		case *SliceV:
			if k, obj, ok := embOf(x.Arr); ok { // a view of an array field: the field's own component
				return assignEntry{only: []string{k}, prefix: k, ref: obj, text: path + "[*]", off: x.Off, n: x.Len}
			}
			return assignEntry{prefix: elemKey(x.Elem), ref: x.Arr, text: path + "[*]", off: x.Off, n: x.Len}
		case *PtrV:
			l := e.locOf(x)
			v := st.LoadLoc(l)
			switch y := v.(type) {
			case *SliceV:
				return assignEntry{prefix: elemKey(y.Elem), ref: y.Arr, text: path + "[*]"}
			case *MapV:
				return assignEntry{prefix: mapKey(y.T), ref: y.Ref, text: path + "[*]"}
			}
		case *MapV:
			return assignEntry{prefix: mapKey(x.T), ref: x.Ref, text: path + "[*]"}
		}
		panic(unsupported("assigns: cannot take elements of " + path))
	}
	p, ok := cur.(*PtrV)
	if !ok {
		panic(unsupported("assigns: " + path + " is not a location"))
	}
	l := e.locOf(p)
	return assignEntry{prefix: l.Key, ref: l.Idx[0], text: path}
}

// valueAt evaluates a path such as "v.r" or "w" to the value stored there.
func (e *Exec) valueAt(st *State, fn *ssa.Function, params map[string]Value, path string) Value {
	parts := strings.Split(path, ".")
	cur, ok := params[parts[0]]
	if !ok {
		panic(unsupported("assigns: unknown root " + parts[0] + " in " + fnName(fn)))
	}
	for _, f := range parts[1:] {
		p, ok := cur.(*PtrV)
		if !ok || p.Kind != PObj {
			panic(unsupported("assigns: cannot select ." + f + " in " + path))
		}
		l := e.locOf(p)
		st2, isStruct := l.T.Underlying().(*types.Struct)
		if !isStruct {
			panic(unsupported("assigns: " + path + ": not a struct at ." + f))
		}
		idx := -1
		for i := 0; i < st2.NumFields(); i++ {
			if st2.Field(i).Name() == f {
				idx = i
			}
		}
		if idx < 0 {
			panic(unsupported("assigns: no field " + f + " in " + path))
		}
		np := *p
		np.Path = append(append([]int(nil), p.Path...), idx)
		if _, isS := st2.Field(idx).Type().Underlying().(*types.Struct); isS {
			if _, g := ghostStruct(st2.Field(idx).Type()); !g {
				cur = &np
				continue
			}
		}
		cur = st.LoadLoc(e.locOf(&np))
	}
	return cur
}

func (e *Exec) checkAssigns(st *State, fr *Frame, l Loc, pos token.Pos) {
	e.frameCheckCond(st, fr, True, l, pos)
}

func (e *Exec) frameCheckCond(st *State, fr *Frame, cond *Term, l Loc, pos token.Pos) {
	if e.discovery > 0 || e.specMode > 0 || e.topSpec == nil || !e.topSpec.hasContract() || e.topSpec.Lemma || cond == False {
		return
	}
	if e.topSpec.NoFrame {
		e.note("FRAME NOT CHECKED for " + e.topSpec.Target + " (declared noframe: only its other clauses are verified; nothing may call it by contract)")
		return
	}
	if k, obj, ok := embOf(l.Idx[0]); ok {
		// an element of an array field: the location written is the field itself
		l = Loc{Key: k, Idx: []*Term{obj}, T: l.T}
	}
	ref := l.Idx[0]
	if ref.Op == "ref" {
		return
	}
	if strings.HasPrefix(l.Key, "G:") {
		// package-level variable: must be listed explicitly
	}
	alts := []*Term{IntLe(e.topEntry, ref)}
	for _, a := range e.topAssigns {
		if a.covers(l.Key) {
			if a.ref == nil {
				return // any object of that type may be assigned
			}
			alts = append(alts, Eq(ref, a.ref))
		}
	}
	if os.Getenv("GOVC_DEBUG") == "8" && e.discovery == 0 {
		fmt.Fprintf(os.Stderr, "FRAMECHECK %s key=%s ref=%s at %s\n", e.curFn, l.Key, showTerm(ref, 4), fnName(fr.fn)+relPos(fr.fn, pos))
	}
	e.oblige(st, fr, "frame", pos, Implies(cond, Or(alts...)))
}

// frameCheckAppend: append growing in place writes the spare capacity of the array arr. Allowed when the array itself
// may be written (allocated during the call, or listed), or when the slice was read from a heap variable or field
// that existed before the call and may be assigned: whoever may assign x.f is taken to own the spare capacity of the
// array x.f points to (an assumption, noted). A slice held only in locals or in objects made during the call gets no
// such exemption: its array may be the caller's.
func (e *Exec) frameCheckAppend(st *State, fr *Frame, arr Loc, owner *Loc, pos token.Pos) {
	if e.discovery > 0 || e.specMode > 0 || e.topSpec == nil || !e.topSpec.hasContract() || e.topSpec.Lemma || e.topSpec.NoFrame {
		return
	}
	alts := func(l Loc) ([]*Term, bool) {
		var out []*Term
		for _, a := range e.topAssigns {
			if a.covers(l.Key) {
				if a.ref == nil {
					return nil, true
				}
				out = append(out, Eq(l.Idx[0], a.ref))
			}
		}
		return out, false
	}
	if k, obj, ok := embOf(arr.Idx[0]); ok {
		// the spare capacity of a view of an array field is the field itself
		arr = Loc{Key: k, Idx: []*Term{obj}, T: arr.T}
		owner = nil
	}
	ref := arr.Idx[0]
	if ref.Op == "ref" {
		return
	}
	goal, any := alts(arr)
	if any {
		return
	}
	goal = append(goal, IntLe(e.topEntry, ref))
	if owner != nil {
		oa, oany := alts(*owner)
		own := Or(oa...)
		if oany {
			own = True
		}
		if own != False {
			e.note("ASSUMED: the spare capacity beyond len() of a slice held in a variable or field that existed before the call is owned by whoever may assign that variable or field (x.f = append(x.f, ...) growing in place is frame-checked against x.f)")
		}
		goal = append(goal, And(Not(IntLe(e.topEntry, owner.Idx[0])), own))
	}
	e.oblige(st, fr, "frame", pos, Or(goal...))
}

// readAllModel: ioutil.ReadAll / io.ReadAll over a reader of known dynamic type whose Read method has a contract.
// ReadAll calls Read until it reports an error. Summary used here (loop summarisation with the callee's precondition
// I as the invariant): the first call is an ordinary call by contract; if it succeeds, I must hold again (obligation:
// the callee's contract has to say so); after that the state is an arbitrary one satisfying I (everything the callee may
// assign is made arbitrary) from which one more call by contract is made, and that call is the one that fails.
// ReadAll returns nil for io.EOF and the error otherwise; the bytes returned are unspecified.
func (e *Exec) readAllModel(st *State, fr *Frame, fn *ssa.Function, args []Value, pos token.Pos) []Outcome {
	r, ok := args[0].(*IfaceV)
	if ok && r.Tid.Op != "intconst" && e.discovery == 0 && e.specMode == 0 {
		// the dynamic type is symbolic: one case per type of this module whose Read is under contract, each only
		// if the path condition allows it; any other type must be impossible here
		e.oblige(st, fr, "safe.nil", pos, Not(Eq(r.Tid, IntConst(0))))
		feasible := func(s *State) bool {
			if s.dead {
				return false
			}
			if e.pruner == nil {
				e.pruner = NewPruner()
			}
			return !e.pruner.Infeasible(append(append([]*Term{}, s.pc...), s.facts...))
		}
		var outs []Outcome
		rest := st.Clone()
		seen := map[string]bool{}
		for _, sp := range e.specs.byFn {
			if sp.Fn == nil || sp.Fn.Name() != "Read" || sp.Fn.Signature.Recv() == nil || !sp.hasContract() || seen[sp.Target] {
				continue
			}
			seen[sp.Target] = true
			rt := sp.Fn.Signature.Recv().Type()
			tid := e.tid(rt)
			rest.Assume(Not(Eq(r.Tid, tid)))
			s := st.Clone()
			s.Assume(Eq(r.Tid, tid))
			if !feasible(s) {
				continue
			}
			a2 := append([]Value{&IfaceV{Tid: tid, Ref: r.Ref}}, args[1:]...)
			outs = append(outs, e.readAllModel(s, fr, fn, a2, pos)...)
		}
		rest.Assume(Not(Eq(r.Tid, IntConst(0))))
		if feasible(rest) {
			panic(unsupported("ReadAll of a reader whose dynamic type is not known"))
		}
		return outs
	}
	if !ok || r.Tid.Op != "intconst" || r.Tid.Val == 0 || e.tidTypes[int(r.Tid.Val)-1] == nil {
		panic(unsupported("ReadAll of a reader whose dynamic type is not known"))
	}
	t := e.tidTypes[int(r.Tid.Val)-1]
	var readM *types.Func
	ms := types.NewMethodSet(t)
	for i := 0; i < ms.Len(); i++ {
		if ms.At(i).Obj().Name() == "Read" {
			readM = ms.At(i).Obj().(*types.Func)
		}
	}
	if readM == nil {
		panic(unsupported("ReadAll: no Read method on " + t.String()))
	}
	rf := e.methodOf(t, readM)
	sp := e.specs.ForFn(rf)
	if rf == nil || sp == nil || !sp.hasContract() || sp.NoFrame {
		panic(unsupported("ReadAll of a reader whose Read has no contract: " + t.String()))
	}
	e.note("ReadAll is summarised through the contract of " + sp.Target + ": first call, precondition re-established after every successful call (obligation), then an arbitrary later call that fails")
	recv := e.unbox(st, t, r)
	bt := types.NewSlice(types.Typ[types.Uint8])
	mkbuf := func(s *State) *SliceV {
		n := Fresh("readall.buf", BV(64))
		s.Assume(And(BVUle(BVConst(1, 64), n), BVUle(n, BVConst(maxLen, 64))))
		return e.newSlice(s, types.Typ[types.Uint8], n, n)
	}
	eof := e.ioEOF(st, "EOF")
	result := func(s *State, err *IfaceV) Outcome {
		data := freshValue("readall.data", bt)
		e.assumeValid(s, bt, data)
		isEOF := And(Eq(err.Tid, eof.Tid), Eq(err.Ref, eof.Ref))
		return Outcome{s, []Value{data, &IfaceV{Tid: Ite(isEOF, IntConst(0), err.Tid), Ref: Ite(isEOF, IntConst(0), err.Ref)}}}
	}
	var outs []Outcome
	for _, o1 := range e.callContract(st, fr, sp, rf, []Value{recv, mkbuf(st)}, pos) {
		if o1.st.dead {
			continue
		}
		err1 := o1.results[1].(*IfaceV)
		failed := Not(Eq(err1.Tid, IntConst(0)))
		// the loop ends with the first call
		sA := o1.st.Clone()
		sA.Assume(failed)
		if !sA.dead {
			outs = append(outs, result(sA, err1))
		}
		// or goes on: the precondition holds again, and from some later state satisfying it a call fails
		sB := o1.st
		sB.Assume(Not(failed))
		if sB.dead {
			continue
		}
		params := e.paramMap(rf, []Value{recv, mkbuf(sB)})
		cf := &Frame{fn: rf, params: params, entry: sB.Clone(), depth: fr.depth + 1}
		// the loop invariant: the callee's precondition and its `iterate` clause, if any
		inv := append([]*Clause{}, sp.Requires...)
		if sp.Iterate != nil {
			inv = append(inv, sp.Iterate)
		}
		holds := func(s *State, what string) {
			for _, c := range inv {
				t := e.evalSpec(s, cf, c, func(n string, t types.Type) (Value, bool) { return e.topEnvLookup(s, cf, n, t) }, true)
				e.oblige(s, fr, "readall.invariant."+what+"."+c.Name, pos, t)
			}
		}
		holds(sB, "established") // after the first successful call
		for _, a := range sp.Assigns {
			if a == "ghost.calls" {
				continue
			}
			e.havocAssign(sB, e.resolveAssign(sB, rf, params, a))
		}
		for _, c := range inv {
			sB.Assume(e.evalSpec(sB, cf, c, func(n string, t types.Type) (Value, bool) { return e.topEnvLookup(sB, cf, n, t) }, true))
		}
		for _, o2 := range e.callContract(sB, fr, sp, rf, []Value{recv, mkbuf(sB)}, pos) {
			err2 := o2.results[1].(*IfaceV)
			failed2 := Not(Eq(err2.Tid, IntConst(0)))
			sOK := o2.st.Clone()
			sOK.Assume(Not(failed2))
			if !sOK.dead {
				holds(sOK, "preserved") // a later successful call keeps it (this branch is not an exit)
			}
			o2.st.Assume(failed2)
			if !o2.st.dead {
				outs = append(outs, result(o2.st, err2))
			}
		}
	}
	return outs
}

// ---------- contract summaries at call sites ----------

func (e *Exec) paramMap(fn *ssa.Function, args []Value) map[string]Value {
	m := map[string]Value{}
	for i, p := range fn.Params {
		m[p.Name()] = args[i]
	}
	return m
}

func (e *Exec) havocAssign(st *State, a assignEntry) {
	for k, s := range heapSorts {
		if !a.covers(k) {
			continue
		}
		if a.ref == nil {
			st.heaps[k] = Fresh("hv:"+k, s)
			st.written[k] = true
			continue
		}
		h := st.heap(k, s)
		_, es := s.ArrayParts()
		if a.off != nil && es.IsArray() {
			// only the slice's own range of the backing array is unspecified afterwards
			st.heaps[k] = Store(h, a.ref, ArrayCopy(Select(h, a.ref), a.off, Fresh("hv:"+k, es), a.off, a.n))
		} else {
			st.heaps[k] = Store(h, a.ref, Fresh("hv:"+k, es))
		}
		st.written[k] = true
	}
}

func (e *Exec) callContract(st *State, fr *Frame, sp *FnSpec, fn *ssa.Function, args []Value, pos token.Pos) []Outcome {
	if sp.NoFrame {
		panic(unsupported("call by contract to a function whose frame is not checked: " + sp.Target))
	}
	if sp.Trusted {
		e.note("trusted contract: " + sp.Target)
	} else {
		e.note("modular call (callee verified separately against its contract): " + sp.Target)
	}
	if os.Getenv("GOVC_DEBUG") != "" && e.discovery == 0 {
		fmt.Fprintf(os.Stderr, "DEBUG: contract call %s in %s dead=%v pc=%d\n", sp.Target, e.curFn, st.dead, len(st.pc))
	}
	if e.discovery == 0 && e.specMode == 0 && !sp.Trusted && e.usedSpecs != nil {
		e.usedSpecs[sp] = true
	}
	params := e.paramMap(fn, args)
	pre := st.Clone()
	prePC := st.PC()
	cf := &Frame{fn: fn, params: params, entry: pre, depth: fr.depth + 1}
	for _, c := range sp.Requires {
		t := e.evalSpec(st, cf, c, func(n string, t types.Type) (Value, bool) { return e.topEnvLookup(st, cf, n, t) }, true)
		if os.Getenv("GOVC_DEBUG") != "" && e.discovery == 0 {
			fmt.Fprintf(os.Stderr, "DEBUG: requires %s = %s\n", c.Name, showTerm(t, 4))
		}
		e.oblige(st, fr, "callsite.requires."+fn.Name()+"."+c.Name, pos, t)
	}
	for _, a := range sp.Assigns {
		ae := e.resolveAssign(pre, fn, params, a)
		// the callee's frame must be inside the caller's (its ghost call counters are its own: the ones IT counts are
		// only made arbitrary here, so that what its postconditions say about them constrains nothing of the caller's;
		// counters of other callees, which the caller may be keeping, are not touched)
		if a == "ghost.calls" {
			var only []string
			for n := range sp.CountCalls {
				only = append(only, "ghost:calls."+n, "ghost:calls.last."+n)
				for _, w := range []int{8, 16, 32, 64} {
					only = append(only, fmt.Sprintf("ghost:calls.lastv%d.%s", w, n))
				}
			}
			sort.Strings(only)
			ae.only = only
		}
		if ae.ref != nil && a != "ghost.calls" {
			if len(ae.only) > 0 {
				for _, k := range ae.only {
					e.frameCheck(st, fr, Loc{Key: k, Idx: []*Term{ae.ref}}, pos)
				}
			} else {
				e.frameCheck(st, fr, Loc{Key: ae.prefix, Idx: []*Term{ae.ref}}, pos)
			}
		}
		e.havocAssign(st, ae)
	}
	oldTop := st.Top()
	st.NewBase()
	res := fn.Signature.Results()
	var rs []Value
	for i := 0; i < res.Len(); i++ {
		v := freshValue("ret."+fn.Name(), res.At(i).Type())
		e.assumeValid(st, res.At(i).Type(), v)
		rs = append(rs, v)
		name := res.At(i).Name()
		for _, f := range sp.Fresh {
			if f == name || f == fmt.Sprintf("ret%d", i) {
				switch x := v.(type) {
				case *PtrV:
					st.Assume(Or(Eq(ptrToTerm(x), IntConst(0)), IntLe(oldTop, ptrToTerm(x))))
				case *SliceV:
					st.Assume(Or(Eq(x.Cap, BVConst(0, 64)), IntLe(oldTop, x.Arr)))
				case *IfaceV:
					st.Assume(Or(Eq(x.Tid, IntConst(0)), IntLe(oldTop, x.Ref)))
				}
			}
		}
	}
	env := e.resultEnv(st, cf, rs)
	savedFB := e.freshBase
	savedOld := e.oldState
	e.oldState = pre
	defer func() { e.oldState = savedOld }()
	e.freshBase = oldTop
	for _, c := range sp.AssumedEnsures {
		e.note("ASSUMED (not proved): postcondition " + c.Name + " of " + sp.Target)
		t := e.evalSpec(st, cf, c, env, false)
		if os.Getenv("GOVC_DEBUG") == "4" && e.discovery == 0 {
			fmt.Fprintf(os.Stderr, "ASSUME(assumed) %s.%s = %s\n", sp.Target, c.Name, showTerm(t, dbgDepth()))
		}
		st.Assume(t)
	}
	for _, c := range sp.GhostEnsures {
		e.note("GHOST DEFINITION: " + c.Name + " defines how " + sp.Target + " updates specification-only state (assumed at call sites, nothing to prove)")
		st.Assume(e.evalSpec(st, cf, c, env, false))
	}
	for _, c := range sp.Ensures {
		wasDead := st.dead
		t := e.evalSpec(st, cf, c, env, false)
		if os.Getenv("GOVC_DEBUG") != "" && e.discovery == 0 && !wasDead && st.dead {
			fmt.Fprintf(os.Stderr, "DEBUG: state died while evaluating ensures %s of %s\n", c.Name, sp.Target)
		}
		if os.Getenv("GOVC_DEBUG") == "4" && e.discovery == 0 {
			fmt.Fprintf(os.Stderr, "ASSUME %s.%s = %s\n", sp.Target, c.Name, showTerm(t, dbgDepth()))
		}
		if t == False && os.Getenv("GOVC_DEBUG") != "" {
			fmt.Fprintf(os.Stderr, "DEBUG: assuming ensures %s of %s is literally false in %s\n", c.Name, sp.Target, e.curFn)
		}
		st.Assume(t)
	}
	e.freshBase = savedFB
	if os.Getenv("GOVC_DEBUG") != "" && e.discovery == 0 {
		fmt.Fprintf(os.Stderr, "DEBUG:   after %s dead=%v\n", sp.Target, st.dead)
	}
	// vacuity guard: the callee's postcondition must be satisfiable together with what is known at the call site
	if e.discovery == 0 && e.specMode == 0 && !st.dead {
		e.obls = append(e.obls, &Obligation{Name: e.curFn + "#cover.after." + fn.Name() + relPos(fr.fn, pos), Kind: "cover-call", Fn: e.curFn, Labels: e.curLabels, PC: st.PC(), Goal: False, Inputs: e.curInputs, Entry: e.curEntry, PrePC: prePC})
	}
	return one(st, rs...)
}

func (e *Exec) callIfaceContract(st *State, fr *Frame, sp *IfaceSpec, cc *ssa.CallCommon, recv *IfaceV, args []Value, pos token.Pos) []Outcome {
	e.note("interface contract: " + sp.Iface + "." + sp.Method)
	sig := cc.Method.Type().(*types.Signature)
	params := map[string]Value{"v": recv}
	for i := 0; i < sig.Params().Len(); i++ {
		params[sig.Params().At(i).Name()] = args[i]
	}
	lookup := func(n string, t types.Type) (Value, bool) { v, ok := params[n]; return v, ok }
	for _, c := range sp.Requires {
		t := e.evalSpec(st, fr, c, lookup, true)
		e.oblige(st, fr, "callsite.requires."+sp.Method+"."+c.Name, pos, t)
	}
	for _, a := range sp.Assigns {
		if a == "v.*" {
			// everything reachable from the receiver object: havoc all fields of all objects of the implementing types
			e.havocIfaceObject(st, recv)
		}
	}
	st.NewBase()
	var rs []Value
	for i := 0; i < sig.Results().Len(); i++ {
		rt := sig.Results().At(i).Type()
		v := freshValue("ret."+sp.Method, rt)
		if sp.Pure {
			// a function of the receiver, its abstract state and the arguments
			in := []*Term{recv.Tid, recv.Ref, Select(st.heap("ghost:absver", ArrSort(SInt, SInt)), recv.Ref)}
			for j := 0; j < sig.Params().Len(); j++ {
				in = append(in, flatten(sig.Params().At(j).Type(), args[j])...)
			}
			cs := components(rt)
			ts := make([]*Term, len(cs))
			for k, c := range cs {
				ts[k] = App(fmt.Sprintf("pure:%s.%s.%d%s", sp.Iface, sp.Method, i, c.suffix), c.sort, in...)
			}
			v = unflatten(rt, &ts)
		}
		e.assumeValid(st, rt, v)
		rs = append(rs, v)
		params[sig.Results().At(i).Name()] = v
		params[fmt.Sprintf("ret%d", i)] = v
	}
	for _, c := range sp.Ensures {
		st.Assume(e.evalSpec(st, fr, c, lookup, false))
	}
	return one(st, rs...)
}

func (e *Exec) havocIfaceObject(st *State, recv *IfaceV) {
	// model-field based: bump the version of the abstract state of the object
	key := "ghost:absver"
	h := st.heap(key, ArrSort(SInt, SInt))
	st.heaps[key] = Store(h, recv.Ref, Fresh("absver", SInt))
	st.written[key] = true
}

// ---------- top-level verification of one function ----------

func (e *Exec) freshInput(st *State, name string, t types.Type) Value {
	cs := components(t)
	ts := make([]*Term, len(cs))
	for i, c := range cs {
		ts[i] = Var("in:"+name+c.suffix, c.sort)
	}
	v := unflatten(t, &ts)
	e.assumeValid(st, t, v)
	return v
}

func (e *Exec) unrollBound(fn *ssa.Function, lp *Loop) int {
	if e.specMode > 0 {
		return 64 // loops inside spec functions (constant trip counts) are unrolled
	}
	if e.inlineAll == 0 && e.specMode == 0 {
		// complete unrolling: a loop whose trip count is bounded by a constant under the precondition is unrolled, and the
		// back edge after the last unrolling carries an unwinding assertion (an obligation), so nothing is left uncovered
		if sp := e.specs.ForFn(fn); sp != nil && sp.UnrollComplete[lp.ordinal] > 0 && sp == e.topSpec {
			return sp.UnrollComplete[lp.ordinal]
		}
	}
	if e.inlineAll > 0 && e.specMode == 0 {
		// bounded stand-in: per-loop bound if one is declared for the callee, else the lemma's bound
		if sp := e.specs.ForFn(fn); sp != nil && sp.Unroll[lp.ordinal] > 0 {
			return sp.Unroll[lp.ordinal]
		}
		return e.inlineAll
	}
	return 0
}

// VerifyFunction generates all obligations of sp.Fn for the given property.
func (e *Exec) VerifyFunction(sp *FnSpec, prop string) (err error) {
	fn := sp.Fn
	defer func() {
		if x := recover(); x != nil {
			if u, ok := x.(Unsupported); ok {
				err = u
				return
			}
			if os.Getenv("GOVC_PANIC") != "" {
				panic(x)
			}
			// an internal error of the generator on this function's code: the function is undecided, which fails
			// closed like any construct outside the subset (never a crash of the whole check)
			err = unsupported(fmt.Sprintf("internal error of the condition generator: %v", x))
		}
	}()
	e.curFn = fnName(fn)
	if prop != "*" {
		e.curLabels = []string{prop}
	}
	e.paths = 0
	e.specForks = 0
	e.genStart = time.Now()
	// (a function abandoned in the middle of a specification or discovery pass must not leave its mode behind)
	e.specMode, e.discovery, e.oldState = 0, 0, nil
	e.inOldSpec, e.dstIsDiscard, e.appendOwner, e.tolerant = false, false, nil, false
	e.specDefs, e.specAssert, e.specBase, e.disc, e.discDepth, e.freshBase, e.panicAllowed = nil, false, 0, nil, 0, nil, nil
	e.codeReads = map[string]bool{}
	loadHook = nil
	if len(sp.NeverReads) > 0 {
		loadHook = func(k string) {
			if e.specMode == 0 {
				e.codeReads[k] = true
			}
		}
	}
	if os.Getenv("GOVC_PATHSTAT") != "" {
		defer func() {
			fmt.Fprintf(os.Stderr, "PATHSTAT %s paths=%d specforks=%d\n", fnName(fn), e.paths, e.specForks)
		}()
	}
	if e.pruner != nil {
		e.pruneQueries += e.pruner.queries
		e.pruneCuts += e.pruner.pruned
		e.pruner.Close()
		e.pruner = nil
	}
	e.topSpec = sp
	e.atCallSeen = nil
	e.inlineAll = sp.Bounded
	if sp.Bounded > 0 {
		e.note(fmt.Sprintf("BOUNDED: %s is checked with callees inlined and every loop unrolled at most %d times (a stand-in, not counted as an unbounded proof)", fnName(fn), sp.Bounded))
	}
	e.stack = []string{fn.String()}
	st := e.initialState()
	st.Assume(IntLe(IntConst(1), refTerm(0, 0)))
	fr := &Frame{fn: fn, env: map[ssa.Value]Value{}, loops: map[*ssa.BasicBlock]*loopRec{}, spec: sp, top: true, params: map[string]Value{}}
	e.curInputs = nil
	for i, p := range fn.Params {
		v := e.freshInput(st, p.Name(), p.Type())
		fr.env[p] = v
		fr.params[p.Name()] = v
		e.curInputs = append(e.curInputs, NamedValue{p.Name(), p.Type(), v})
		if i == 0 && fn.Signature.Recv() != nil {
			if pv, ok := v.(*PtrV); ok && pv.Kind == PObj {
				st.Assume(Not(Eq(pv.Base, IntConst(0))))
			}
		}
	}
	// a closure verified on its own: every captured variable is a cell that existed before the call and holds an
	// arbitrary (well-formed) value; contracts name the captured variables like parameters
	for _, fv := range fn.FreeVars {
		pt, ok := fv.Type().(*types.Pointer)
		if !ok {
			return unsupported("free variable that is not a captured variable: " + e.curFn)
		}
		cell := e.alloc(st, pt.Elem())
		v := e.freshInput(st, fv.Name(), pt.Elem())
		st.StoreLoc(e.locOf(cell), v)
		fr.env[fv] = cell
		fr.params[fv.Name()] = v
		e.curInputs = append(e.curInputs, NamedValue{fv.Name(), pt.Elem(), v})
	}
	for callee := range sp.CountCalls {
		e.ghSet(st, "calls."+callee, BV(64), IntConst(0), BVConst(0, 64)) // ghost call counters start at zero
	}
	e.topEntry = st.Top()
	fr.entryTop = st.Top()
	fr.entry = st.Clone()
	e.curEntry = fr.entry
	e.oldState = fr.entry
	env0 := func(n string, t types.Type) (Value, bool) { return e.topEnvLookup(st, fr, n, t) }
	for _, c := range sp.Requires {
		st.Assume(e.evalSpec(st, fr, c, env0, false))
	}
	fr.entry = st.Clone()
	e.oldState = fr.entry
	e.topAssigns = nil
	for _, a := range sp.Assigns {
		e.topAssigns = append(e.topAssigns, e.resolveAssign(st, fn, fr.params, a))
	}
	// vacuity guard: the precondition together with the type invariants must be satisfiable
	e.obls = append(e.obls, &Obligation{Name: e.curFn + "#cover.requires", Kind: "cover", Fn: e.curFn, Labels: e.curLabels, PC: st.PC(), Goal: False, Inputs: e.curInputs, Entry: e.curEntry})
	if fn.Blocks == nil {
		return unsupported("function has no body: " + e.curFn)
	}
	var panicCond *Term
	if sp.PanicsIff != nil {
		panicCond = e.evalSpec(st, fr, sp.PanicsIff, env0, true)
		e.panicAllowed = panicCond
	} else {
		e.panicAllowed = nil
	}
	outs := e.runBlock(st, fr, fn.Blocks[0], nil, 0)
	nret := 0
	for _, o := range outs {
		if o.st.dead {
			continue
		}
		nret++
		env := e.resultEnv(o.st, fr, o.results)
		if sp.hasContract() && !sp.Lemma && !sp.NoFrame {
			// ghost stream cells written during the call must belong to streams named in the assigns clause
			seen := map[string]bool{}
			for _, g := range o.st.gw[len(fr.entry.gw):] {
				id := g.key + "@" + fmt.Sprint(g.ref.ID)
				if seen[id] {
					continue
				}
				seen[id] = true
				var alts []*Term
				for _, a := range e.topAssigns {
					if strings.HasPrefix(g.key, a.prefix) && a.ref != nil {
						alts = append(alts, Eq(g.ref, a.ref))
					}
				}
				if goal := Or(alts...); goal != True {
					e.obligeNamed(o.st, e.curFn+"#frame.ghost."+g.key, "frame", nil, sp.Pos, goal)
				}
			}
		}
		if panicCond != nil {
			e.obligeNamed(o.st, e.curFn+"#panics_iff.returns-only-if-not", "ensures", sp.PanicsIff.Labels, sp.Pos, Not(panicCond))
		}
		// results declared fresh: nil, or allocated during the call (callers assume exactly this)
		for i, r := range o.results {
			name := fn.Signature.Results().At(i).Name()
			for _, f := range sp.Fresh {
				if f != name && f != fmt.Sprintf("ret%d", i) {
					continue
				}
				var goal *Term
				switch x := r.(type) {
				case *PtrV:
					goal = Or(Eq(ptrToTerm(x), IntConst(0)), IntLe(e.topEntry, ptrToTerm(x)))
				case *SliceV:
					goal = Or(Eq(x.Cap, BVConst(0, 64)), IntLe(e.topEntry, x.Arr))
				case *IfaceV:
					goal = Or(Eq(x.Tid, IntConst(0)), IntLe(e.topEntry, x.Ref))
				}
				if goal != nil {
					e.obligeNamed(o.st, fmt.Sprintf("%s#fresh.%s", e.curFn, f), "ensures", nil, sp.Pos, goal)
				}
			}
		}
		if sp.Lemma {
			for i, r := range o.results {
				if t, ok := r.(*Term); ok && t.Sort == SBool {
					e.obligeNamed(o.st, fmt.Sprintf("%s#lemma.holds%d", e.curFn, i), "lemma", sp.Safe, sp.Pos, t)
				}
			}
		}
		for _, c := range sp.Ensures {
			if !hasProp(c.Labels, prop) {
				continue
			}
			t := e.evalSpec(o.st, fr, c, env, true)
			e.obligeNamed(o.st, fmt.Sprintf("%s#ensures.%s", e.curFn, strings.Join(c.Labels, ",")), "ensures", c.Labels, sp.Pos, t)
		}
	}
	// a call-site clause whose callee is never called says nothing: the code no longer has the shape the contract was
	// written for (e.g. the transport write moved into another helper)
	{
		var names []string
		for callee := range sp.AtCall {
			if !e.atCallSeen[callee] {
				names = append(names, callee)
			}
		}
		sort.Strings(names)
		for _, callee := range names {
			e.obligeNamed(st, e.curFn+"#at-call."+callee+".never-called", "vacuity", nil, sp.Pos, False)
		}
	}
	if len(outs) == 0 && (sp.Lemma || len(sp.Ensures) > 0) {
		// no path reaches a return (every path was cut by an unrolling bound, died, or panicked): a lemma or a
		// postcondition over zero outcomes would hold vacuously
		e.obligeNamed(st, e.curFn+"#no-outcome", "vacuity", nil, sp.Pos, False)
	}
	for _, nr := range sp.NeverReads {
		// loads executed by the code of the function (on any explored path; specification passes do not count)
		goal := True
		for k := range e.codeReads {
			if strings.HasPrefix(k, nr[0]) {
				goal = False
			}
		}
		if len(outs) > 0 {
			e.obligeNamed(outs[0].st, e.curFn+"#never-reads."+nr[0], "reads", []string{nr[1]}, sp.Pos, goal)
		}
	}
	if sp.Pure && len(outs) > 0 {
		// a pure function may only read the heap components it declares (its callers treat it as a function of those)
		bad := map[string]bool{}
		for _, o := range outs {
			for k := range o.st.heaps {
				if strings.HasPrefix(k, "ghost:") || strings.HasPrefix(k, "box:") || strings.HasPrefix(k, "cell:") || strings.HasPrefix(k, "G:") || strings.HasSuffix(k, ".$held") || readsCovers(sp.Reads, k) {
					continue
				}
				if _, atEntry := fr.entry.heaps[k]; atEntry && fr.entry.heaps[k] == o.st.heaps[k] && !o.st.written[k] {
					// present since before the call and never touched by it (package initialisers)
				}
				bad[k] = true
			}
		}
		for k := range bad {
			if _, preset := e.initialState().heaps[k]; preset {
				continue // set up by the package initialisers, not by this call
			}
			e.obligeNamed(outs[0].st, e.curFn+"#reads."+k, "reads", nil, sp.Pos, False)
		}
	}
	e.returns = nret
	return nil
}

func hasProp(labels []string, prop string) bool {
	if prop == "*" {
		return true
	}
	for _, l := range labels {
		if l == prop || strings.HasPrefix(l, prop+".") {
			return true
		}
	}
	return false
}

// ---------- package-level variables ----------

func (e *Exec) initialState() *State {
	if e.initState != nil {
		return e.initState.Clone()
	}
	return NewState()
}

// ---------- stubs filled in by later modules ----------

func (e *Exec) sharedAccess(st *State, fr *Frame, p *PtrV, pos token.Pos) {}

// sharedAccessMap: a map read/write/delete. If the map was loaded from a field declared `shared ... guarded_by`,
// the guarding mutex (a sibling field path of the same object) must be in the ghost lock-set.
func (e *Exec) sharedAccessMap(st *State, fr *Frame, m ssa.Value, pos token.Pos) {
	if e.discovery > 0 || e.specMode > 0 || len(e.specs.shared) == 0 {
		return
	}
	ld, ok := m.(*ssa.UnOp)
	if !ok {
		return
	}
	fa, ok := ld.X.(*ssa.FieldAddr)
	if !ok {
		return
	}
	pv, ok := fr.env[fa].(*PtrV)
	if !ok || pv.Kind != PObj {
		return
	}
	key, _ := fieldKey(rootType(pv), pv.Path)
	for _, sd := range e.specs.shared {
		if !strings.HasSuffix(key, "."+sd.What) && key != sd.What {
			continue
		}
		// guard: replace the trailing field path by the guard's path
		base := strings.TrimSuffix(key, sd.What)
		gk := base + sd.Guard + ".$held"
		held := Select(st.heap(gk, ArrSort(SInt, SBool)), pv.Base)
		e.oblige(st, fr, "guarded."+sd.Label, pos, held)
	}
}
func (e *Exec) lockAcquired(st *State, l Loc) {}

// ---------- channels used as mutexes (a 1-slot channel holding a token) ----------

// isLockChan: the channel value was loaded from a field declared `//@ lock-chan <field>`.
func (e *Exec) isLockChan(v ssa.Value) bool {
	if _, ok := v.(*ssa.MakeChan); ok { // a 1-slot channel made in this function (see MakeChan)
		return true
	}
	ld, ok := v.(*ssa.UnOp)
	if !ok {
		return false
	}
	fa, ok := ld.X.(*ssa.FieldAddr)
	if !ok {
		return false
	}
	st, ok := fa.X.Type().Underlying().(*types.Pointer).Elem().Underlying().(*types.Struct)
	if !ok {
		return false
	}
	name := st.Field(fa.Field).Name()
	for _, l := range e.specs.lockChans {
		if l == name {
			return true
		}
	}
	return false
}

func (e *Exec) chanHeld(st *State, ch *Term) *Term { return e.ghGet(st, "chanheld", SBool, ch) }

func (e *Exec) lockAcquire(st *State, fr *Frame, ch *Term, pos token.Pos) {
	e.oblige(st, fr, "lock.acquire-not-held", pos, Not(e.chanHeld(st, ch)))
	e.ghSet(st, "chanheld", SBool, ch, True)
}

func (e *Exec) selectInstr(st *State, fr *Frame, x *ssa.Select) []Outcome {
	if !x.Blocking {
		panic(unsupported("non-blocking select"))
	}
	var outs []Outcome
	for i, s := range x.States {
		if s.Dir != types.RecvOnly {
			panic(unsupported("select with a send case"))
		}
		s2 := st.Clone()
		ch := e.val(fr, s.Chan).(*Term)
		rs := []Value{BVConst(uint64(i), 64), True}
		for j, t := range x.States {
			elem := t.Chan.Type().Underlying().(*types.Chan).Elem()
			if j == i {
				if e.isLockChan(s.Chan) {
					e.lockAcquire(s2, fr, ch, x.Pos())
					e.interfereAt(s2, fr, s.Chan)
					rs = append(rs, True)
				} else {
					v := freshValue("recv", elem)
					e.assumeValid(s2, elem, v)
					rs = append(rs, v)
				}
			} else {
				rs = append(rs, zeroValue(elem))
			}
		}
		outs = append(outs, Outcome{s2, rs})
	}
	return outs
}

func (e *Exec) chanSend(st *State, fr *Frame, x *ssa.Send) {
	if !e.isLockChan(x.Chan) {
		panic(unsupported("channel send (only declared lock channels are modelled)"))
	}
	ch := e.val(fr, x.Chan).(*Term)
	e.oblige(st, fr, "lock.release-held", x.Pos(), e.chanHeld(st, ch))
	e.ghSet(st, "chanheld", SBool, ch, False)
}

func (e *Exec) chanRecv(st *State, fr *Frame, x *ssa.UnOp, ch Value) Value {
	if !e.isLockChan(x.X) {
		panic(unsupported("channel receive (only declared lock channels are modelled)"))
	}
	e.lockAcquire(st, fr, ch.(*Term), x.Pos())
	e.interfereAt(st, fr, x.X)
	if x.CommaOk {
		return &TupleV{Vs: []Value{True, True}}
	}
	return True
}

// sliceEmbeddedArray: c.field[:] where field is an array stored by value inside an object: a view of the field's own
// heap component (see embArr).
func (e *Exec) sliceEmbeddedArray(st *State, fr *Frame, a *PtrV, x *ssa.Slice, get func(ssa.Value, *Term) *Term) Value {
	l := e.locOf(a)
	at, ok := l.T.Underlying().(*types.Array)
	if !ok {
		panic(unsupported("slicing a non-array object"))
	}
	if len(components(at.Elem())) != 1 {
		panic(unsupported("slicing an array field with non-scalar elements"))
	}
	e.nilCheck(st, fr, a, x.Pos())
	n := BVConst(uint64(at.Len()), 64)
	lo, hi, mx := get(x.Low, BVConst(0, 64)), get(x.High, n), get(x.Max, n)
	e.oblige(st, fr, "safe.slice", x.Pos(), And(BVUle(lo, hi), BVUle(hi, mx), BVUle(mx, n)))
	return &SliceV{Arr: embArr(l.Key+".adata", l.Idx[0]), Off: lo, Len: BVSub(hi, lo), Cap: BVSub(mx, lo), Elem: at.Elem()}
}

func dbgDepth() int {
	if n, err := strconv.Atoi(os.Getenv("GOVC_DEPTH")); err == nil {
		return n
	}
	return 4
}
