package main

// Discharging obligations: one SMT-LIB query per named obligation, raced on the installed solvers.

import (
	"bytes"
	"context"
	"fmt"
	"os"
	"os/exec"
	"path/filepath"
	"sort"
	"strconv"
	"strings"
	"sync"
	"time"
)

type Group struct {
	Name   string
	Kind   string
	Fn     string
	Labels []string
	Obls   []*Obligation
	Axioms []*Term
	Pos    string
}

type Result struct {
	Group    *Group
	Verdict  string // "unsat" (discharged), "sat" (refuted), "unknown"
	Solver   string
	Seconds  float64
	Model    map[string]string
	Output   string
	File     string
	Size     int
	Trivial  bool
	Confirm  []string // other solvers that independently returned the same verdict (thorough)
	Disagree bool
}

var defAxiomsGlobal map[string][]*Term

type solverCmd struct {
	name string
	args func(timeout int, file string) []string
	ok   func(q string) bool
}

var solvers = []solverCmd{
	{"z3-5.1.0", func(t int, f string) []string { return []string{"z3-new", fmt.Sprintf("-T:%d", t), f} }, func(q string) bool { return true }},
	{"z3-4.8.12", func(t int, f string) []string { return []string{"z3", fmt.Sprintf("-T:%d", t), f} }, func(q string) bool { return true }},
	{"cvc5-1.0.3", func(t int, f string) []string {
		return []string{"cvc5", fmt.Sprintf("--tlimit=%d", t*1000), "--produce-models", f}
	}, func(q string) bool { return !strings.Contains(q, "(lambda ") }},
}

func runSolver(ctx context.Context, s solverCmd, timeout int, file string) (verdict, out string, secs float64) {
	t0 := time.Now()
	args := s.args(timeout, file)
	cmd := exec.CommandContext(ctx, args[0], args[1:]...)
	var buf bytes.Buffer
	cmd.Stdout = &buf
	cmd.Stderr = &buf
	cmd.Run()
	secs = time.Since(t0).Seconds()
	out = buf.String()
	for _, ln := range strings.Split(out, "\n") {
		ln = strings.TrimSpace(ln)
		switch ln {
		case "sat", "unsat":
			return ln, out[strings.Index(out, ln):], secs
		case "unknown", "timeout":
			return "unknown", out, secs
		}
		if strings.HasPrefix(ln, "(error") {
			return "unknown", out, secs
		}
	}
	return "unknown", out, secs
}

// race runs all applicable solvers and returns the first definite answer.
func race(query, file string, timeout int, confirm bool) (verdict, solver, out string, secs float64, confirms []string, disagree bool) {
	return race2(query, file, "", timeout, confirm)
}

// race2: file holds the query with lambda terms (z3 only), fileB (optional) the same query with lambdas replaced by
// named arrays with triggered pointwise axioms (all solvers).
func race2(query, file, fileB string, timeout int, confirm bool) (verdict, solver, out string, secs float64, confirms []string, disagree bool) {
	ctx, cancel := context.WithCancel(context.Background())
	defer cancel()
	type ans struct {
		v, s, o string
		t       float64
	}
	ch := make(chan ans, len(solvers))
	n := 0
	ch = make(chan ans, 2*len(solvers))
	for _, s := range solvers {
		if s.ok(query) {
			n++
			go func(s solverCmd) {
				v, o, t := runSolver(ctx, s, timeout, file)
				ch <- ans{v, s.name, o, t}
			}(s)
		}
		if fileB != "" && s.name != "z3-4.8.12" {
			n++
			go func(s solverCmd) {
				v, o, t := runSolver(ctx, s, timeout, fileB)
				ch <- ans{v, s.name + "/axiomatised-arrays", o, t}
			}(s)
		}
	}
	var first *ans
	var outs []string
	for i := 0; i < n; i++ {
		a := <-ch
		outs = append(outs, a.s+": "+strings.TrimSpace(firstLines(a.o, 3)))
		if a.v == "sat" && strings.HasPrefix(a.s, "z3-4.8.12") && (strings.Contains(query, "(forall ") || strings.Contains(query, "(lambda ")) {
			// z3 4.8.12 has answered sat on quantified/lambda queries that cvc5 and z3 5.1 both refute: not a verdict
			outs = append(outs, a.s+": sat on a quantified query ignored")
			continue
		}
		if a.v == "unknown" {
			continue
		}
		if first == nil {
			aa := a
			first = &aa
			if !confirm {
				cancel()
				break
			}
			continue
		}
		if a.v == first.v {
			confirms = append(confirms, a.s)
		} else {
			disagree = true
		}
	}
	if first == nil {
		return "unknown", "", strings.Join(outs, "\n"), float64(timeout), nil, false
	}
	return first.v, first.s, first.o, first.t, confirms, disagree
}

func firstLines(s string, n int) string {
	ls := strings.Split(s, "\n")
	if len(ls) > n {
		ls = ls[:n]
	}
	return strings.Join(ls, " | ")
}

// groupObligations merges obligations with the same name (one per path) into one query each.
func groupObligations(obls []*Obligation, axioms map[string][]*Term) []*Group {
	m := map[string]*Group{}
	var order []string
	for _, o := range obls {
		g := m[o.Name]
		if g == nil {
			g = &Group{Name: o.Name, Kind: o.Kind, Fn: o.Fn, Labels: o.Labels, Axioms: axioms[o.Fn], Pos: o.Pos}
			m[o.Name] = g
			order = append(order, o.Name)
		}
		g.Obls = append(g.Obls, o)
	}
	sort.Strings(order)
	var out []*Group
	for _, n := range order {
		out = append(out, m[n])
	}
	return out
}

// relevantAxioms returns the definitional axioms of the defined symbols occurring (transitively) in the formulas.
func relevantAxioms(defs map[string][]*Term, fs ...*Term) []*Term {
	seenT := map[int]bool{}
	seenK := map[string]bool{}
	var out []*Term
	var walk func(t *Term)
	walk = func(t *Term) {
		if seenT[t.ID] {
			return
		}
		seenT[t.ID] = true
		if t.Op == "app" && !seenK[t.Name] {
			seenK[t.Name] = true
			for _, a := range defs[t.Name] {
				out = append(out, a)
				walk(a)
			}
		}
		for _, a := range t.Args {
			walk(a)
		}
	}
	for _, f := range fs {
		walk(f)
	}
	return out
}

func (g *Group) formula() *Term {
	var alts []*Term
	for _, o := range g.Obls {
		alts = append(alts, And(o.PC, Not(o.Goal)))
	}
	return Or(alts...)
}

// modelTerms lists the terms whose values describe the inputs of the function under verification.
func modelTerms(g *Group) (names []string, terms []*Term) {
	if len(g.Obls) == 0 {
		return
	}
	seen := map[string]bool{}
	add := func(n string, t *Term) {
		if !seen[n] {
			seen[n] = true
			names = append(names, n)
			terms = append(terms, t)
		}
	}
	for _, in := range g.Obls[0].Inputs {
		collectModelTerms(g.Obls[0].Entry, in.Name, in.T, in.V, 2, add)
	}
	if extraModelTerms != nil {
		extraModelTerms(g.Obls[0].Entry, add)
	}
	return
}

// extraModelTerms: set by the driver; adds the identities of io.EOF / io.ErrUnexpectedEOF so that a replay can tell
// which terminal error a model stream ends with.
var extraModelTerms func(entry *State, add func(string, *Term))

const modelBytes = 64

// dumpCore writes a query whose path-condition conjuncts are individually named, for unsat-core inspection.
func dumpCore(g *Group, file string) {
	o := g.Obls[0]
	if k, err := strconv.Atoi(os.Getenv("GOVC_CORE_PATH")); err == nil && k < len(g.Obls) {
		o = g.Obls[k]
	}
	p := NewPrinter()
	var names []string
	var conj []*Term
	if o.PC.Op == "and" {
		conj = o.PC.Args
	} else {
		conj = []*Term{o.PC}
	}
	conj = append(conj, boundFactsFor(conj...)...)
	if os.Getenv("GOVC_CORE_GOAL") != "" {
		conj = append(conj, Not(o.Goal))
	}
	for _, c := range conj {
		names = append(names, p.ref(c))
	}
	var sb strings.Builder
	sb.WriteString("(set-option :produce-unsat-cores true)\n(set-logic ALL)\n")
	for _, n := range p.declOrd {
		fmt.Fprintf(&sb, "(declare-const %s %s)\n", smtName(n), p.decls[n])
	}
	for _, n := range p.funOrd {
		sb.WriteString(p.funs[n] + "\n")
	}
	sb.WriteString(p.sb.String())
	for i, n := range names {
		fmt.Fprintf(&sb, "(assert (! %s :named c%d)) ; %s\n", n, i, showTerm(conj[i], 6))
	}
	sb.WriteString("(check-sat)\n(get-unsat-core)\n")
	os.WriteFile(file, []byte(sb.String()), 0o644)
}

func discharge(groups []*Group, workDir string, timeout int, confirm bool, workers int) []*Result {
	os.MkdirAll(workDir, 0o755)
	if n := os.Getenv("GOVC_CORE"); n != "" {
		for _, g := range groups {
			if strings.Contains(g.Name, n) {
				dumpCore(g, "/tmp/core.smt2")
			}
		}
	}
	results := make([]*Result, len(groups))
	var wg sync.WaitGroup
	sem := make(chan struct{}, workers)
	var mu sync.Mutex
	type job struct {
		i     int
		query string
		file  string
		fileB string
		size  int
		names []string
		terms map[string]string
	}
	var jobs []job
	// term construction and printing are not thread safe: do them sequentially
	for i, g := range groups {
		f := g.formula()
		if f == False {
			results[i] = &Result{Group: g, Verdict: "unsat", Solver: "simplifier", Trivial: true}
			continue
		}
		p := NewPrinter()
		var asserts []*Term
		if g.Kind != "cover" && g.Kind != "cover-call" {
			// axioms are conservative definitions of fresh symbols: a cover (satisfiability) query does not need them
			asserts = append(asserts, g.Axioms...)
			asserts = append(asserts, relevantAxioms(defAxiomsGlobal, f)...)
		}
		asserts = append(asserts, f)
		asserts = append(asserts, boundFactsFor(asserts...)...)
		names, terms := modelTerms(g)
		q := p.Query(asserts, terms)
		file := filepath.Join(workDir, sanitize(g.Name)+".smt2")
		if len(file) > 200 {
			file = filepath.Join(workDir, fmt.Sprintf("q%d.smt2", i))
		}
		os.WriteFile(file, []byte(q), 0o644)
		fileB := ""
		if p.sawLambda {
			pb := NewPrinter()
			pb.noLambda = true
			qb := pb.Query(asserts, terms)
			fileB = strings.TrimSuffix(file, ".smt2") + ".ax.smt2"
			os.WriteFile(fileB, []byte(qb), 0o644)
		}
		tm := map[string]string{}
		for k, n := range names {
			tm[n] = p.ref(terms[k])
		}
		jobs = append(jobs, job{i, q, file, fileB, TermSize(asserts...), names, tm})
	}
	for _, j := range jobs {
		wg.Add(1)
		sem <- struct{}{}
		go func(j job) {
			defer wg.Done()
			defer func() { <-sem }()
			t1 := timeout
			if groups[j.i].Kind == "cover-call" && t1 > 3 {
				t1 = 3
			}
			if len(groups[j.i].Obls) > 1 && groups[j.i].Kind != "cover" && groups[j.i].Kind != "cover-call" && t1 > 8 {
				t1 = 8 // undecided groups are retried path by path with the full timeout
			}
			v, s, out, secs, conf, dis := race2(j.query, j.file, j.fileB, t1, confirm)
			if os.Getenv("GOVC_FORCE_SPLIT") != "" && len(groups[j.i].Obls) > 1 && groups[j.i].Kind != "cover" && groups[j.i].Kind != "cover-call" {
				v = "unknown" // debugging: exercise the path-by-path retry
			}
			r := &Result{Group: groups[j.i], Verdict: v, Solver: s, Seconds: secs, Output: out, File: j.file, Size: j.size, Confirm: conf, Disagree: dis}
			if v == "sat" {
				r.Model = parseModel(out, j.names)
				// look for a model with small slices/strings: easier to materialise in a replay
				if strings.Contains(j.query, "(check-sat)") {
					var extra strings.Builder
					for _, n := range j.names {
						if strings.HasSuffix(n, ".len") || strings.HasSuffix(n, ".slen") || strings.HasSuffix(n, ".cap") || strings.HasSuffix(n, ".rd.pos") {
							extra.WriteString("(assert (bvule " + j.terms[n] + " #x0000000000001000))\n")
						}
					}
					if extra.Len() > 0 {
						q2 := strings.Replace(j.query, "(check-sat)", extra.String()+"(check-sat)", 1)
						f2 := strings.TrimSuffix(j.file, ".smt2") + ".small.smt2"
						os.WriteFile(f2, []byte(q2), 0o644)
						v2, _, out2, _, _, _ := race(q2, f2, 10, false)
						if v2 == "sat" {
							r.Model = parseModel(out2, j.names)
							r.Output = out2
						}
					}
				}
			}
			mu.Lock()
			results[j.i] = r
			mu.Unlock()
		}(j)
	}
	wg.Wait()
	// second pass: a group the solvers could not decide as one disjunction is retried path by path
	type sub struct {
		gi    int
		query string
		file  string
		fileB string
	}
	var subs []sub
	subNames := map[int][]string{}
	satOut := map[int]string{}
	for i, r := range results {
		if r == nil || r.Verdict != "unknown" || len(groups[i].Obls) < 1 || groups[i].Kind == "cover" || groups[i].Kind == "cover-call" {
			continue
		}
		for k, o := range groups[i].Obls {
			f := And(o.PC, Not(o.Goal))
			if f == False {
				continue
			}
			p := NewPrinter()
			asserts := append([]*Term{}, groups[i].Axioms...)
			asserts = append(asserts, relevantAxioms(defAxiomsGlobal, f)...)
			asserts = append(asserts, f)
			asserts = append(asserts, boundFactsFor(asserts...)...)
			names, terms := modelTerms(groups[i])
			q := p.Query(asserts, terms)
			subNames[i] = names
			file := fmt.Sprintf("%s.path%d.smt2", strings.TrimSuffix(r.File, ".smt2"), k)
			os.WriteFile(file, []byte(q), 0o644)
			fileB := ""
			if p.sawLambda {
				pb := NewPrinter()
				pb.noLambda = true
				fileB = strings.TrimSuffix(file, ".smt2") + ".ax.smt2"
				os.WriteFile(fileB, []byte(pb.Query(asserts, terms)), 0o644)
			}
			subs = append(subs, sub{i, q, file, fileB})
		}
	}
	if len(subs) > 0 {
		bad := map[int]string{}
		secs := map[int]float64{}
		used := map[int]string{}
		record := func(sb sub, v, s, out string, t float64) {
			secs[sb.gi] += t
			used[sb.gi] = s
			if v != "unsat" {
				if bad[sb.gi] == "" || v == "sat" {
					bad[sb.gi] = v + " on " + filepath.Base(sb.file) + ": " + firstLines(out, 2)
				}
				if v == "sat" && satOut[sb.gi] == "" {
					satOut[sb.gi] = out
				}
			}
		}
		var undecided []sub
		for _, sb := range subs {
			wg.Add(1)
			sem <- struct{}{}
			go func(sb sub) {
				defer wg.Done()
				defer func() { <-sem }()
				v, s, out, t, _, _ := race2(sb.query, sb.file, sb.fileB, timeout, false)
				mu.Lock()
				if v != "unsat" && v != "sat" {
					// a time-out here is usually the machine's load (dozens of solver processes at once), not the
					// query: it gets one more try below, alone and with a longer limit
					secs[sb.gi] += t
					undecided = append(undecided, sb)
				} else {
					record(sb, v, s, out, t)
				}
				mu.Unlock()
			}(sb)
		}
		wg.Wait()
		// third pass: what is still undecided, one query at a time with four times the limit
		// (only when a handful is left: many undecided queries are not a load blip, and retrying them one by one
		// would take hours)
		// would take hours; the whole third pass of a run is limited to a few minutes)
		spent := 0.0
		for _, sb := range undecided {
			if len(undecided) > 4 || spent > float64(4*timeout) {
				record(sb, "unknown", "", "undecided within the limit (not retried: too many undecided path queries)", 0)
				continue
			}
			v, s, out, t, _, _ := race2(sb.query, sb.file, sb.fileB, timeout*3, false)
			spent += t
			record(sb, v, s+" (retried alone)", out, t)
		}
		for i, r := range results {
			if _, tried := secs[i]; !tried || r == nil {
				continue
			}
			r.Seconds += secs[i]
			if bad[i] == "" {
				r.Verdict = "unsat"
				r.Solver = used[i] + " (path-split)"
			} else {
				r.Output += "\npath-split: " + bad[i]
				if so, ok := satOut[i]; ok {
					r.Verdict = "sat"
					r.Solver = used[i] + " (path-split)"
					r.Model = parseModel(so, subNames[i])
				}
			}
		}
	}
	return results
}

// parseModel reads the (get-value ...) answer: a list of (term value) pairs in the order requested.
func parseModel(out string, names []string) map[string]string {
	m := map[string]string{}
	idx := strings.Index(out, "\n")
	if idx < 0 {
		return m
	}
	body := strings.TrimSpace(out[idx+1:])
	// split top-level pairs
	if !strings.HasPrefix(body, "(") {
		return m
	}
	body = body[1:]
	depth := 0
	start := -1
	var pairs []string
	for i, c := range body {
		switch c {
		case '(':
			if depth == 0 {
				start = i
			}
			depth++
		case ')':
			depth--
			if depth == 0 && start >= 0 {
				pairs = append(pairs, body[start:i+1])
				start = -1
			}
		}
	}
	for i, p := range pairs {
		if i >= len(names) {
			break
		}
		// value = last top-level element of the pair
		inner := strings.TrimSpace(p[1 : len(p)-1])
		val := lastSexp(inner)
		m[names[i]] = val
	}
	return m
}

func lastSexp(s string) string {
	s = strings.TrimSpace(s)
	if strings.HasSuffix(s, ")") {
		depth := 0
		for i := len(s) - 1; i >= 0; i-- {
			switch s[i] {
			case ')':
				depth++
			case '(':
				depth--
				if depth == 0 {
					return s[i:]
				}
			}
		}
	}
	i := strings.LastIndexAny(s, " \n\t")
	return s[i+1:]
}
