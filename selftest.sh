#!/bin/bash
# ./selftest.sh [PROP ...]  -- must-fail corpus (mutants) and must-pass corpus (refactors), each on a scratch copy of /repo
cd "$(dirname "$0")"
export GOFLAGS=-mod=vendor GOPROXY=off GOSUMDB=off GOTOOLCHAIN=local CGO_ENABLED=0
[ -x bin/govc ] || (cd engine && go build -o ../bin/govc .)
props="$@"; [ -z "$props" ] && props=$(ls selftest/mutants selftest/refactors 2>/dev/null | sort -u | grep '^C')
fail=0
run_one() { # kind prop patch
  local kind=$1 prop=$2 patch=$(readlink -f $3)
  local scratch=$(mktemp -d /tmp/govc-selftest-XXXXXX)
  cp -r /repo/. $scratch/ && rm -rf $scratch/.git
  mkdir -p $scratch/.verif && cp known_findings.json $scratch/.verif/
  if ! (cd $scratch && patch -p1 -s < $patch >/dev/null 2>&1); then echo "SELFTEST-BROKEN $prop $(basename $patch): patch does not apply"; rm -rf $scratch; return 1; fi
  local out; out=$(./bin/govc check --prop $prop --repo $scratch --verif $scratch/.verif --no-evidence 2>&1); local rc=$?
  rm -rf $scratch
  if [ $kind = mutant ]; then
    if [ $rc -eq 1 ]; then echo "ok   mutant   $prop $(basename $patch .patch): $(echo "$out" | grep -c '^VIOLATION') violation(s): $(echo "$out" | grep '^VIOLATION' | head -1 | sed 's/.*obligation=//' | cut -c1-90)"; return 0
    else echo "MISS mutant   $prop $(basename $patch .patch) (rc=$rc)"; return 1; fi
  else
    if [ $rc -eq 0 ]; then echo "ok   refactor $prop $(basename $patch .patch)"; return 0
    else echo "FALSE-ALARM refactor $prop $(basename $patch .patch): $(echo "$out" | grep '^VIOLATION' | head -2)"; return 1; fi
  fi
}
for p in $props; do
  for f in selftest/mutants/$p/*.patch; do [ -f "$f" ] && { run_one mutant $p $f || fail=1; }; done
  for f in selftest/refactors/$p/*.patch; do [ -f "$f" ] && { run_one refactor $p $f || fail=1; }; done
done
exit $fail
