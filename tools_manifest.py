#!/usr/bin/env python3
# Regenerates MANIFEST.json from the table below (kept in one place so the manifest stays valid).
import json, subprocess
CLAIMED = {
 "C13": dict(
   text="Wire-validity contracts on the real frame assemblers: the bytes flushFrame hands to the transport start with an RFC 6455 5.2 header for (FIN, RSV1 only when this frame opens a compressed message, RSV2/3 clear, opcode or continuation, mask bit iff client, the shortest length form incl. the 125/126 and 65535/65536 boundaries, 64-bit lengths below 2^63), of the right total length; control frames are final and at most 125 bytes; after a non-final frame the writer continues with continuation frames and RSV1 cleared; WriteControl emits exactly one whole control frame with the right first two bytes. Payload: after the header flushFrame hands over exactly the bytes pending in the write buffer (XORed with the 4-byte key in front of them for a client) and the caller's extra bytes untouched; Conn.write puts exactly its two buffers on the transport, in order (complete unrolling with an unwinding assertion); a ghost 'accepted payload' stream per message writer (flushed bytes ++ pending bytes) is kept unchanged by ncopy and grows by exactly len(p) in Write/WriteString and by exactly the bytes taken from the reader in ReadFrom, whose count is what ReadFrom returns (also when the reader delivers data together with io.EOF). For a server, a successful flushFrame leaves on the transport exactly header-length + payload-length bytes starting with a header that is valid for (FIN, RSV1, opcode, unmasked, length); Conn.WriteMessage's single-frame fast path (server, no compression, no unfinished writer) puts one FINAL frame of the given opcode and exactly len(data) payload bytes on the transport, for any size.",
   note="PARTIAL (as designed): end-to-end delivery of every message through compress/flate, bufio, net and all write APIs, and the opening handshake, are not decidable by per-function contracts here and are not claimed. The byte CONTENTS that Write/WriteString/ReadFrom copy into the buffer are not under contract (only their number; the quantified invariants were not decided by the solvers). maskBytes (unsafe) is a trusted model (the RFC 6455 5.3 function). flushFrame's update of the ghost accepted-payload stream is a ghost definition (assumed at call sites, nothing to prove). Trusted: net.Conn write stream contract, io.Reader read stream contract, govc, go/ssa, solvers.",
   design="7/C13"),
 "C15": dict(
   text="Ghost lock-set discipline on the real writer: the write lock is a 1-slot channel modelled as a mutex; every transport write (conn.Write) happens with it held (guarded obligation at each call), it is released on every path of write/WriteControl/flushFrame (including timeouts and errors), nothing is written once the close-sent latch is set and the latch error is returned, a successful Close sets the latch before the lock is released, and the latch is monotone (first error wins). Interference: the latch is re-read as arbitrary (within 'set once', which every store is checked to respect) at every lock acquisition, and every transport write requires the latch to have been seen clear in the same critical section.",
   note="The verifier is sequential: 'frames never interleave under any schedule' follows from these obligations by the mutual-exclusion argument of DESIGN 2.4 (stated, not machine-checked). The best-effort isWriting flag and data races on other fields are not decided. Trusted: channel-as-mutex and net.Conn models, govc, go/ssa, solvers.",
   design="7/C15"),
 "C14": dict(
   text="Contracts on the real advanceFrame against RFC 6455 5.2-5.5 rule predicates over the ghost input stream: an accepted frame has legal RSV bits and a known opcode, control frames are final and declare at most 125 bytes, data/continuation sequencing follows the message-in-progress flag, the mask bit matches the role, the remaining-bytes counter equals the declared length and is never negative (64-bit lengths with the top bit set are refused), the message length accumulates over fragments without overflow and never passes a configured read limit; every protocol error sends Close 1002 (call-site assertion on WriteControl) and returns an error; the received-close-code table is checked against RFC 7.4.1 for all codes. Message reader and NextReader: a clean end (io.EOF) is reported only by a superseded reader or after the final frame has been read to its last byte - a message cut by the transport, inside a frame or between the frames of a fragmented message, ends with an unexpected-EOF error, never cleanly; bytes are only handed out from the frame in progress; the first read error is sticky (returned again, nothing more taken from the transport, remembered by NextReader); NextReader announces only text/binary messages; both loops terminate (measure: unread input).",
   note="ASSUMED: user-supplied ping/pong/close handlers do not modify reader state; maskBytes (unsafe) and WriteControl are trusted contracts here. The decompressing reader (compress/flate) and the byte CONTENTS delivered by messageReader.Read (unmasking) are not under contract; io.ReadCloser.Close of the previous message's reader is an interface contract (touches that reader only). Trusted: bufio.Reader Peek/Discard stream contracts, govc, go/ssa, solvers.",
   design="7/C14"),
 "C18": dict(
   text="The connection-id counter is declared shared/atomic: every plain read or write of it is a failed obligation (the repaired code goes through sync/atomic); WithContext stores exactly the value returned by the atomic increment (so ids are pairwise distinct); AliasContext returns a context carrying exactly its source's id; every logging entry point (Println/Printf/doPrintln/doPrintf) hands exactly one line to the underlying log.Logger on every path (ghost emission counter), for nil contexts, id-carrying objects and context.Context values; the first thing on that line is the prefix made by fmt.Sprintf from the pid and the id of the context that was passed (context.Context value / object's Cid() / pid only for nil), with fmt.Sprintf and os.Getpid as uninterpreted pure functions.",
   note="The verifier is sequential: uniqueness under concurrency follows from atomicity of the increment (trusted sync/atomic) plus the proved 'stored id = increment result'; whole-line atomicity is log.Logger's (trusted). The characters fmt.Sprintf produces and Switch/Close racing with loggers are not decided. Trusted: context.WithValue/Value contract, govc, go/ssa, solvers.",
   design="7/C18"),
 "C07": dict(
   text="Zero-annotation panic-freedom obligations (index, slice bounds, nil dereference, make size, division, type assertion, explicit panic) generated for every instruction of the listed decoders and enum helpers, for ANY input bytes and all 256/65536 enum values: aac (Decode, SetASC, ASC codec, all String/ToHz/ToProfile/ToObjectType), flv (demuxer, both packagers, every String/ToHz/OpusToHz/From), avc (NALU/record/sample decoders, String), amf0 scalars, Discovery and the container decoders (objectBase.unmarshal with both closures, Object/EcmaArray/StrictArray.UnmarshalBinary: panic-free and terminating for all inputs, given the interface contract of the child values), rtmp (basic header, message header, payload step, ReadMessage loop, control packet decoders, onMessageArrivated, and the whole command decoding path: DecodeMessage, parseAMFObject, connect/connect-response/call/createStream-response/publish/play packet decoders), websocket (advanceFrame, handleProtocolError, close-code table); loops carry termination measures where listed.",
   note="ASSUMED (listed in the evidence): a successfully decoded AMF0 object satisfies 4 <= Size() <= len(input) (needs induction over the property list; supported by the bounded container lemmas); Size() of containers is treated as a pure function of the amf0 heap components (its reads are checked when it is verified itself). PARTIAL: not covered - JWS/JWE/JWK parsing, OCSP, JSON+ reader, and the linear-time bound (no cost accounting). Trusted: govc, go/ssa, solvers.",
   design="7/C07"),
 "C04": dict(
   text="Ghost lock-set discipline and ordering contracts on the real code: the request is in the transaction table before WriteMessage is called (call-site assertion in WritePacket); every read/write/delete of the table happens with its mutex held (guarded_by obligations at each map access); the mutex is released on every path of WritePacket and parseAMFObject; lookup and delete of a response's transaction happen in one critical section and consume the entry exactly once; frames show the reader API and the writer API share only the guarded table.",
   note="The verifier is sequential: 'no interleaving breaks matching and no data race' follows from these obligations by the standard argument that critical sections of one mutex are totally ordered and that the two APIs' frames are otherwise disjoint (DESIGN 2.4) - that last step is stated, not machine-checked. Map keys of type float64 are compared by bit pattern. Trusted: sync.Mutex model, govc, go/ssa, solvers.",
   design="7/C04"),
 "C01": dict(
   text="Contracts on the real chunk writer helpers (type-0 and type-3 header generators against RTMP 5.3.1 incl. extended timestamps) and on the chunk reader: one payload step consumes exactly min(remaining, input chunk size) bytes and appends them (prefix preserved), a message is returned iff complete and never truncated, ReadMessage's loop is verified against a quantified invariant over the chunk-stream table (per-stream consistency and separation), and the peer's Set Chunk Size takes effect on the reader. Writer/reader agreement across chunk boundaries: BOUNDED lemmas run the real WriteMessage and then the real ReadMessage on exactly the bytes the writer produced (the reader's ghost input is the writer's ghost output) for a 9-byte message over chunk size 4 (type-0 + two type-3 chunks), with and without extended timestamps (the 32-bit field after every type-3 header), for a payload that is an exact multiple of the chunk size, and for one byte; arbitrary payload bytes, stream id and timestamp; type, stream id, timestamp and payload come back identical and the reader stops exactly at the end of the output.",
   note="PARTIAL: WriteMessage is verified for termination, transport-error propagation, exact output of single-chunk messages and own Set Chunk Size; the byte-exact multi-chunk layout for arbitrary sizes is not under an unbounded contract (the round-trip lemmas are bounded stand-ins at fixed sizes); the whole-session induction is a paper argument over the per-step contracts; the handshake is not covered. Trusted: ghost-stream contracts of io.ReadFull/binary.Read/bufio, govc, go/ssa, solvers.",
   design="7/C01"),
 "C02": dict(
   text="readBasicHeader against the three basic-header forms (all first bytes, exact consumption), readMessageHeader against RTMP 5.3.1.2/5.3.1.3: mandatory rejections (type 0 inside a message, length change, fresh stream not starting with type 0 except the librtmp ping), acceptance otherwise, field replacement/inheritance, timestamp rules for types 0-3 reduced to 31 bits, extended timestamp of type 0; frame conditions (only the addressed chunk stream's state and message change) and preservation of the reader-state invariant across ReadMessage. A BOUNDED conformance lemma feeds the real ReadMessage a chunk stream written from RTMP 1.0 5.3.1 (two chunk streams interleaved, 1-, 2- and 3-byte basic headers, all four header types, timestamp deltas, a type-3 chunk that starts a new message; arbitrary payload bytes) and requires the six messages back in completion order with the right type, stream id, timestamp and payload, the reader stopping exactly at the end of the input.",
   note="Known finding (recorded, not repaired): extended timestamp of type-1/2 chunks taken as absolute instead of delta. Completion order over unbounded interleavings follows by induction over the frame condition (not mechanised). Trusted: ghost-stream contracts, govc, go/ssa, solvers.",
   design="7/C02"),
 "C03": dict(
   text="Set Chunk Size, Window Acknowledgement Size, Set Peer Bandwidth and User Control packets: Size(), marshal layout, unmarshal acceptance and values over the full uint32/int32 ranges and all 65536 user-control event types (1/4/8-byte bodies) by bit-vector reasoning; User Control round-trip lemma with trailing data. AMF0 command packets (connect, connect response with and without an args object, createStream and its response, publish, play, generic call/closeStream with and without an argument): BOUNDED lemmas over fixed-shape AMF0 trees with arbitrary scalar contents, key bytes, stream names and transaction ids - marshal length == Size(), field order, decode into a fresh packet of the same kind to equal field values, re-marshal to the same bytes.",
   note="Command dispatch by name and _result/_error dispatch by transaction id (right response type, consumed once, error when unmatched) are under contract. PARTIAL: the command-packet clauses are bounded stand-ins (fixed shapes, callees inlined), not proofs over all AMF0 trees; the reflection-based Expect* helpers are not under contract. Trusted: govc, go/ssa, solvers.",
   design="7/C03"),
 "C09": dict(
   text="Byte-exact FLV v1 layout contracts on the real muxer (13-byte header incl. PreviousTagSize0, 11-byte tag header, body, PreviousTagSize = 11+size) and demuxer (fields read at the stream head, exact advance by 13 / 11 / size+4, body never truncated, acceptance iff enough bytes), stated over ghost byte streams so they hold for every segmentation of the transport; plus the header+tag round-trip lemma through a real bytes.Buffer / bytes.Reader for every type, 32-bit timestamp and body below 2^24 bytes.",
   note="Trusted: contracts of io.Copy / io.CopyN / bytes.Buffer / bytes.NewReader over ghost streams (they are what hides segmentation), govc, go/ssa, solvers. Sequences of tags follow by induction over the per-tag contracts (position-relative), not mechanised.",
   design="7/C09"),
 "C08": dict(
   text="Ghost ioerr discipline on every FLV read/write entry point: if a transport primitive failed during the call the call returns a non-nil error whose root (through the errors package's wrappers) is exactly that failure, no error is fabricated on a healthy transport, and a returned tag is complete; errors.New/Errorf/WithStack/Wrap/Wrapf/WithMessage preserve nil and the root; withMessage.Error() is 'msg: inner'; Cause through all constructors (bounded: 4 layers over a foreign leaf).",
   note="PARTIAL: the RTMP read/write paths are covered by the rtmp checks only where stated there. Cause over unboundedly deep chains of foreign causer types is not decided. Trusted: io/bufio stream contracts, govc, go/ssa, solvers.",
   design="7/C08"),
 "C20": dict(
   text="Contracts on sample.sample/initialize, kxps.doSample/sampleAverage and the kbps/krps accessors with IEEE-754 semantics (SMT FloatingPoint theory): due/not-due behaviour, the rate formula increase*1000/window_ms, 0 on stall/backwards/2^63 jumps, every reported value finite, non-negative and bounded, frames (doSample touches only the three windows; the average baseline never moves once set), kbps = rate*8/1000, and refusal (panic) before Start as a panics_iff clause.",
   note="Trusted: govc, go/ssa, solvers; time.Time modelled as an abstract signed 64-bit nanosecond instant (Add/Sub assumed not to overflow); the sampling goroutine and wall clock of Start are outside the contracts; the counter source is an arbitrary function.",
   design="7/C20"),
 "C05": dict(
   text="Contracts on every scalar AMF0 codec (UTF-8 names, Number, Boolean, String, null/undefined, object-end): Size() closed forms, marshal length == Size(), wire layout, decode acceptance and values, Size() after decode == bytes consumed; bit-exact Number round trip for all 2^64 patterns and String round trip up to 65535 bytes with trailing data (lemmas). Interface contract for every Amf0 value: Size() is a pure function of the value, a successful UnmarshalBinary leaves Size() <= len(input). Containers: BOUNDED lemmas over trees of fixed shape with arbitrary scalar contents and key bytes (object {Number, Boolean}: exact layout, Size, round trip with keys in order, re-marshal; repeated key: Size()==consumed and re-marshal; trailing bytes; ECMA array incl. the count field; nested object).",
   note="PARTIAL: container clauses are bounded stand-ins (fixed shapes, callees inlined, loops unrolled), not proofs over all trees; the tree-level induction is not mechanised. Known finding: a strict array built through the API does not round-trip (count never maintained). Fixed finding: repeated property name made Size() smaller than the bytes decoded. Trusted: govc, go/ssa, solvers.",
   design="7/C05"),
 "C06": dict(
   text="Discovery over all 256 marker bytes (supported markers yield a value of exactly that marker, everything else is an error); scalar wire layouts against spec functions written from the AMF0 specification, both directions; object, ECMA-array and nested-object layouts byte by byte in the bounded container lemmas.",
   note="PARTIAL: container layouts only for the fixed shapes of the bounded lemmas. Known finding: strict arrays are read and written with a name before every value (AMF0 2.12 has none): the conformant encoding of [1.0, true] is rejected; the keyed layout is pinned by the library's own tests. Trusted: govc, go/ssa, solvers.",
   design="7/C06"),
 "C12": dict(
   text="Contracts on the real NALUHeader/NALU/AVCDecoderConfigurationRecord/AVCSample methods from ISO 14496-10 7.3.1 and ISO 14496-15 5.2.4.1.1: all 256 NAL header bytes, NAL unit round trips for any payload size (lemmas), the six fixed record bytes including reserved bits, SPS count = appended list length, loop invariants and termination measures, frame conditions, panic-freedom of all decoders - all unbounded. List-level round trips (2 SPS + 1 PPS; 2-NALU samples for each length size, children of any size) are bounded stand-ins run in the thorough tier.",
   note="Trusted: govc, go/ssa, solvers; bytes.Buffer as a byte sequence. Not decided: position-dependent facts that need a recursive sequence spec (e.g. the PPS count byte of a record with >= 32 PPS) - only covered by the bounded lemmas.",
   design="7/C12"),
 "C10": dict(
   text="Layout contracts (FLV v10 E.4.2.1 / E.4.3.1 plus the documented Opus extension) on the real audio/video packagers, both directions, over the full field ranges; four round-trip lemmas (frame->bytes->frame and bytes->frame->bytes, audio and video) proved from the contracts for all payload lengths; rate-code tables.",
   note="Trusted: govc translation, go/ssa, SMT solvers; bytes.Buffer modelled as a byte sequence; canonical bodies = what the encoder emits (Opus: defined rate code, zero first-byte rate bits).",
   design="7/C10"),
 "C11": dict(
   text="Contracts on the real aac functions (Encode, Decode, AudioSpecificConfig Marshal/Unmarshal, ToHz) written from ISO 13818-7 6.2 / ISO 14496-3 1.6.2.1 bit positions; every obligation is an SMT query over 64-bit/8-bit bit-vectors generated from go/ssa of /repo's working tree; plus the composition lemma Decode(Encode(r)++rest)=(r,rest) and the two AudioSpecificConfig round-trip lemmas, proved for all inputs.",
   note="Trusted: the govc translation, go/ssa, the SMT solvers; errors.* constructors modelled (callers/fmt.Sprintf opaque); multi-frame concatenation follows by induction over the proved single-frame lemma (stated, not mechanised).",
   design="7/C11"),
}
# additions of the last build rounds (appended to the texts above)
EXTRA_TEXT = {
 "C01": " Also: the simple handshake readers return exactly the 1/1536/1536-byte blocks whatever the segmentation of the transport reads; a message written by WriteMessage has left the buffered writer (ghost 'flushed' of the bufio.Writer equals its length after every successful call, for every kind of message); a well-formed peer Set Chunk Size of any size from 1 is accepted.",
 "C02": " Also: a well-formed Set Chunk Size message (4 bytes, any size from 1, top bit clear) is accepted by the reader.",
 "C03": " Also under contract: the typed waits. ExpectMessage returns a message of a requested type and every message it read and skipped had none of the requested types (loop invariants over the real loops, ghost 'last message read'); ExpectPacket decodes every message it reads before reading the next (ghost call counters; reflection modelled opaquely; its frame is not specified). DecodeMessage hands the packet decoder the very bytes that selected the packet type (whole payload, or payload behind the AMF3 format byte): call-site clauses. WritePacket's own Set Chunk Size takes effect only after the announcement was written.",
 "C04": " Also: DecodeMessage decodes the packet from the same bytes that were dispatched on (so a response whose transaction was consumed cannot then fail to decode because the decoder got other bytes).",
 "C05": " Also: bounded lemmas for a container cut off before its end marker (rejected), an empty property name that is not the end marker, and the RTMP variant call packet's Size() never exceeding what was decoded.",
 "C06": " Also: bounded lemmas for an empty property name followed by a value marker (a property, not the object end) and for repeated property names (both kept, re-marshalled as read).",
 "C08": " Also: Cause stops at the transport's own error even when that error can itself be unwrapped further (bounded lemma over an error with an Unwrap method).",
 "C12": " Also: a bounded lemma over a record with one SPS and one PPS of ANY size 1..65535 (symbolic sizes): every 16-bit length field is the size of the NAL unit behind it, contents in place; the same with two SPS and the full round trip in the thorough tier.",
 "C13": " Receiving side: after the header of an accepted masked data frame the key held is the four octets in front of the payload and the key position is 0; the message reader advances the key position by the bytes it hands out and hands out exactly the payload octets XOR the key (server) or untouched (client), for all reads (maskBytes itself is a trusted model). NextWriter remembers exactly the writer it hands out (the compressor when one is wrapped around the message writer). Conn.WriteMessage is also verified for a client without active compression: it must go through the message writer (flushFrame's precondition 'extra only for a server' is checked at its call site).",
 "C14": " Also: the reason text of every protocol error fits a control frame, so the 1002 Close is sendable (call-site precondition at each of the ten call sites, strconv results bounded); a new connection's read buffer holds the largest control-frame payload and every Peek of the frame reader fits the buffer (obligation safe.peek-fits instead of the earlier assumption); a clean EOF is never reported for a message cut between its fragments, also when the transport delivers the last bytes of a non-final frame together with io.EOF (genuine defect found by this clause after the bufio model was corrected, fixed by 212af44).",
 "C18": " Also: after Switch(w) the trace, warn and error loggers are new loggers writing to w (ghost writer of log.New), whatever was installed or closed before.",
 "C20": " Also: the value of the average: (latest counter reading - baseline) * 1000 / whole milliseconds since the baseline, 0 while there is no baseline, no increase or no elapsed millisecond (ghost 'last reading' of the arbitrary source).",
}
EXTRA_NOTE = {
 "C03": " ExpectPacket: 'noframe' (what it may modify is not specified or checked; nothing may call it by contract).",
 "C12": " Append growing in place is now frame-checked (owner rule: x.f = append(x.f, ...) is covered by the permission to assign x.f).",
 "C13": " ASSUMED additionally: the compressor constructor is an arbitrary user-supplied function (NextWriter).",
 "C14": " The earlier assumption about writes through a slice of the mask-key array is gone (array fields are first-class now). Trusted additionally: SetCloseHandler/SetPingHandler/SetPongHandler assign only their own handler field (they store closures, outside the subset).",
}
for k, v in EXTRA_TEXT.items():
    CLAIMED[k]["text"] += v
for k, v in EXTRA_NOTE.items():
    CLAIMED[k]["note"] += v
NOT_YET = "check not built yet in this session (claimed in DESIGN.md section 7; will move to checks when its contracts discharge)"
NA = {
 "C16": "cryptographic tamper-resistance and JSON/big-int round trips live inside crypto/*, encoding/json, math/big: no first-order contract within reach decides them (DESIGN 7/C16); the panic-freedom part is under C07",
 "C17": "oracle is encoding/json on the undecorated text over all token streams and scanner refills: needs a sequence-level JSON spec and induction over bufio.Scanner, not expressible as per-function contracts here (DESIGN 7/C17)",
 "C19": "agreement of encoding/json.Marshal and a net/http round trip on arbitrary values: every step is inside library code or closures handed to it (DESIGN 7/C19)",
}
ALL = ["C%02d" % i for i in range(1, 21)]
checks = []
for pid, c in CLAIMED.items():
    checks.append({
        "property_id": pid,
        "quick_cmd": "./check %s --tier quick" % pid,
        "thorough_cmd": "./check %s --tier thorough" % pid,
        "evidence_file": "/verif/evidence/%s.json" % pid,
        "replay_cmd_template": "./check %s --replay {path}" % pid,
        "engine": "govc",
        "level_claimed": {"category": "proof", "text": c["text"], "design_ref": c["design"]},
        "level_note": c["note"],
        "technique": "contract-based deductive verification: requires/ensures/invariants as Go spec functions on the real code, VCs generated from go/ssa, discharged by z3 5.1 / z3 4.8 / cvc5",
    })
na = []
for pid in ALL:
    if pid in CLAIMED:
        continue
    na.append({"property_id": pid, "reason": NA.get(pid, NOT_YET)})
m = {
 "version": 1,
 "setup_cmd": "cd /verif/engine && GOFLAGS=-mod=vendor GOPROXY=off GOSUMDB=off GOTOOLCHAIN=local CGO_ENABLED=0 go build -o /verif/bin/govc .",
 "hooks": {
   "guard": "verif",
   "enable": "go build -tags verif: adds only <pkg>/verif_contracts.go files (contract directives + pure spec functions); no existing file is altered",
   "baseline_off_cmd": "cd /repo && GOFLAGS=-mod=mod GOPROXY=off go test -vet=off -count=1 ./...",
   "source_commits": subprocess.run(["git", "-C", "/repo", "log", "--format=%H", "--grep=^verif:"], capture_output=True, text=True).stdout.split(),
   "add_only": True,
 },
 "engines": [{"name": "govc", "path": "/verif/engine", "serves_properties": sorted(CLAIMED), "kind_free_text": "self-built VC generator over go/ssa (x/tools v0.29.0 vendored) + SMT-LIB back ends"}],
 "checks": checks,
 "not_applicable": na,
 "notes": "Every check rebuilds the SSA of /repo's working tree with -tags verif on each run. A failed obligation is reported as VIOLATION with the solver model replayed on the real code through go test -overlay.",
}
json.dump(m, open("/verif/MANIFEST.json", "w"), indent=1)
print("claimed:", sorted(CLAIMED))
