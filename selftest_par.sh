#!/bin/bash
# ./selftest_par.sh <mutants|refactors|all> [PROP...] : run the self-test corpus in parallel (4 at a time)
cd "$(dirname "$0")"
kind=${1:-all}; shift
props="$@"; [ -z "$props" ] && props=$(ls selftest/mutants selftest/refactors 2>/dev/null | grep '^C' | sort -u)
export GOFLAGS=-mod=vendor GOPROXY=off GOSUMDB=off GOTOOLCHAIN=local CGO_ENABLED=0
[ -x bin/govc ] || (cd engine && go build -o ../bin/govc .)
one() { # kind prop patch
  local kind=$1 prop=$2 patch=$(readlink -f $3)
  local scratch=$(mktemp -d /tmp/govc-selftest-XXXXXX)
  cp -r /repo/. $scratch/ && rm -rf $scratch/.git
  mkdir -p $scratch/.verif && cp known_findings.json $scratch/.verif/
  if ! (cd $scratch && patch -p1 -s < $patch >/dev/null 2>&1); then echo "SELFTEST-BROKEN $prop $(basename $patch): patch does not apply"; rm -rf $scratch; return 1; fi
  local out; out=$(timeout 1800 ./bin/govc check --prop $prop --repo $scratch --verif $scratch/.verif --no-evidence 2>&1); local rc=$?
  rm -rf $scratch
  if [ $kind = mutant ]; then
    if [ $rc -eq 1 ]; then echo "ok   mutant   $prop $(basename $patch .patch): $(echo "$out" | grep '^VIOLATION' | head -1 | sed 's/.*obligation=//' | cut -c1-100)"
    else echo "MISS mutant   $prop $(basename $patch .patch) (rc=$rc)"; fi
  else
    if [ $rc -eq 0 ]; then echo "ok   refactor $prop $(basename $patch .patch)"
    else echo "FALSE-ALARM refactor $prop $(basename $patch .patch): $(echo "$out" | grep '^VIOLATION' | sed 's/.*obligation=//' | cut -c1-120 | head -3 | tr '\n' ';')"; fi
  fi
}
export -f one
{
for p in $props; do
  if [ $kind != refactors ]; then for f in selftest/mutants/$p/*.patch; do [ -f "$f" ] && echo "mutant $p $f"; done; fi
  if [ $kind != mutants ]; then for f in selftest/refactors/$p/*.patch; do [ -f "$f" ] && echo "refactor $p $f"; done; fi
done
} | xargs -P ${SELFTEST_P:-3} -L 1 bash -c 'one $0 $1 $2' | tee .work/selftest.last
! grep -q "^MISS\|^FALSE-ALARM\|^SELFTEST-BROKEN" .work/selftest.last
